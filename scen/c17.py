"""C17 -- results do not depend on evaluation history."""
from __future__ import annotations

from fractions import Fraction

from . import common as C
from . import c02

PROPERTY = 'C17'
BUDGET = {'quick': 200, 'thorough': 1500}
LAST_CONFIG_INFO = {}

META = {
    'bounds': ['interleavings of up to 4 (quick) / 5 (thorough) steps over 5 interdependent declarations (a derived type, a '
               'second derived type, three units of equal scale declared in any order: derive_unit_from, term-defined, '
               'scaled) and 8 probes (quotient, product, unit x unit, unit / unit, reversed operand order, chained '
               'operations, powers), every probe evaluated on two unbounded symbolic amounts',
               'every evaluation is compared with an oracle that depends only on the set of declarations made so far '
               '(dimension oracle over the registered classes, scale oracle from the definitions), hence two evaluations '
               'under the same set of declarations are equal whatever happened in between; repeated evaluations are also '
               'compared with each other directly',
               'second family on the predefined catalogue: sequences of 3 operations over seeded unit pairs in every '
               'order (a/b then b/a, a/b then a*b, ...)'],
    'outside_bounds': ['histories longer than 5', 'different import orders of quantity.predefined / quantity.money (every job '
                       'is forked from a process that imported predefined, then money)'],
    'stubs': ['Decimal(x, precision) rounding contract'],
    'assumptions': ['C02 oracle (dimension vectors from class definitions, scales from unit definitions)'],
}
META['bounds'].append('quotients through converters of a reference-less type: overlapping tables, one-directional affine / int tables, all sequences (a, b, a) of 3-4 quotients; power sequences with non-int exponents before / after')
META['bounds'].append('quantized DataThroughput x Duration evaluated three times across 3 pairs of default modes; money quotients (3 currency orders) re-evaluated after 3 rate updates')

DECLS = ['type-V', 'type-A2', 'unit-v1', 'unit-v2', 'unit-v3']
PROBES = ['qa/qb', 'x1/y1', 'qa*qa', 'x1*x1', 'y1/x1', '(qa/qb)*qb', 'qb/qa', 'qa**2']


def setup(mode):
    C.import_catalogue()
    import quantity.money  # noqa: F401


def jobs(tier, seed):
    rng = C.rng_for(seed, 'c17')
    out = []
    steps = DECLS + PROBES
    depth = 4 if tier == 'quick' else 5
    for first in range(len(steps)):
        out.append({'fn': 'interleave', 'cfg': {'first': first, 'depth': depth}})
    units = [u.symbol for cls in C.linear_classes() for u in cls.units()]
    pairs = [[rng.choice(units), rng.choice(units)] for _ in range(60 if tier == 'quick' else 600)]
    pairs += [['km', 'm'], ['J', 's'], ['m', 's'], ['kHz', 'min'], ['kWh', 'h'], ['b/s', 'ms'], ['N', 'm']]
    for ch in C.chunks(pairs, 16):
        out.append({'fn': 'catalogue_sequences', 'cfg': {'pairs': ch}})
    out.append({'fn': 'noref_sequences', 'cfg': {}})
    out.append({'fn': 'noref_fail_then_succeed', 'cfg': {}})
    out.append({'fn': 'derive_then_divide', 'cfg': {}})
    out.append({'fn': 'noref_converter_sequences', 'cfg': {}})
    out.append({'fn': 'power_sequences', 'cfg': {}})
    out.append({'fn': 'quantized_mode_sequences', 'cfg': {}})
    out.append({'fn': 'money_quotient_after_update', 'cfg': {}})
    out.append({'fn': 'interleave', 'cfg': {'first': 5, 'depth': 1, 'canary': True}, 'canary': True})
    LAST_CONFIG_INFO.clear()
    LAST_CONFIG_INFO.update({'declarations': len(DECLS), 'probes': len(PROBES), 'depth': depth,
                             'catalogue_pairs': len(pairs), 'exhaustive': False})
    return out


def _world():
    X = C.mk_cls('XLen', ref_unit_symbol='x0')
    Y = C.mk_cls('YDur', ref_unit_symbol='y0')
    x1 = X.new_unit('x1', None, Fraction(5, 2) * X.ref_unit)
    y1 = Y.new_unit('y1', None, Fraction(60) * Y.ref_unit)
    return {'X': X, 'Y': Y, 'x0': X.ref_unit, 'y0': Y.ref_unit, 'x1': x1, 'y1': y1}


def _declare(E, w, name):
    from quantity.term import Term
    if name == 'type-V':
        w['V'] = C.mk_cls('XVel', define_as=w['X'] / w['Y'])
    elif name == 'type-A2':
        w['A2'] = C.mk_cls('XArea', define_as=w['X'] ** 2)
    elif name == 'unit-v1':
        w['v1'] = w['V'].derive_unit_from(w['x1'], w['y1'])
    elif name == 'unit-v2':
        w['v2'] = w['V'].new_unit('v2', None, Term(((w['x1'], 1), (w['y1'], -1))))
    elif name == 'unit-v3':
        w['v3'] = w['V'].new_unit('v3', None, Fraction(1, 24) * w['V'].ref_unit)


def _can_declare(w, name, done):
    if name in done:
        return False
    if name.startswith('unit-'):
        return 'V' in w
    return True


def _probe(E, w, name, a, b, last):
    """evaluate probe, compare with the oracle for the current declarations, and with the previous
    evaluation of the same probe under the same declarations"""
    from quantity import Quantity
    qa, qb = Quantity(a, w['x1']), Quantity(b, w['y1'])
    sx, sy = Fraction(5, 2), Fraction(60)
    dX, dY = {w['X']: 1}, {w['Y']: 1}
    ra, rb = a * sx, b * sy
    info = [name, sorted(k for k in w if k in ('V', 'A2', 'v1', 'v2', 'v3'))]
    comb = c02._combine
    if name == 'qa/qb':
        r = c02._check_result(E, 'hist-qa/qb', lambda: qa / qb, comb(dX, dY, -1), ra / rb, info)
    elif name == 'x1/y1':
        r = c02._check_result(E, 'hist-x1/y1', lambda: w['x1'] / w['y1'], comb(dX, dY, -1), sx / sy, info)
    elif name == 'qa*qa':
        r = c02._check_result(E, 'hist-qa*qa', lambda: qa * qa, {w['X']: 2}, ra * ra, info)
    elif name == 'x1*x1':
        r = c02._check_result(E, 'hist-x1*x1', lambda: w['x1'] * w['x1'], {w['X']: 2}, sx * sx, info)
    elif name == 'y1/x1':
        r = c02._check_result(E, 'hist-y1/x1', lambda: w['y1'] / w['x1'], comb(dY, dX, -1), sy / sx, info)
    elif name == 'qb/qa':
        r = c02._check_result(E, 'hist-qb/qa', lambda: qb / qa, comb(dY, dX, -1), rb / ra, info)
    elif name == 'qa**2':
        r = c02._check_result(E, 'hist-qa**2', lambda: qa ** 2, {w['X']: 2}, ra * ra, info)
    else:
        def chained():
            return (qa / qb) * qb
        r = c02._check_result(E, 'hist-(qa/qb)*qb', chained, dX if 'V' in w else None, ra, info) \
            if 'V' in w else c02._check_result(E, 'hist-(qa/qb)*qb', chained, comb(dX, dY, -1), ra, info)
    # immediate / later repetition under the same declarations
    sig = tuple(sorted(k for k in w if k in ('V', 'A2', 'v1', 'v2', 'v3')))
    prev = last.get((name, sig))
    if prev is not None and r is not None:
        if isinstance(r, Quantity) and isinstance(prev, Quantity):
            E.check(type(r) is type(prev) and r == prev, 'repeated-evaluation-equal', key='hist:repeat-differs:' + name,
                    info=info)
        elif isinstance(r, tuple) and isinstance(prev, tuple):
            E.check(r[1] is prev[1] and r[0] == prev[0], 'repeated-evaluation-equal', key='hist:repeat-differs:' + name,
                    info=info)
    if r is not None:
        last[(name, sig)] = r


def interleave(E, cfg):
    w = _world()
    a = E.rational('a', 'dec')
    b = E.rational('b', 'frac')
    E.assume(E.And(a != 0, b != 0))
    steps = DECLS + PROBES
    done = set()
    last = {}
    for k in range(cfg['depth']):
        if k == 0:
            st = steps[cfg['first']]
            if st in DECLS and not _can_declare(w, st, done):
                _declare(E, w, 'type-V')
                done.add('type-V')
        else:
            avail = [s for s in steps if s in PROBES or _can_declare(w, s, done)]
            st = E.choice('s%d' % k, avail + [None])
            if st is None:
                break
        if st in DECLS:
            _declare(E, w, st)
            done.add(st)
        else:
            _probe(E, w, st, a, b, last)
    # final sweep: every probe once more, whatever happened before
    for p in PROBES:
        _probe(E, w, p, a, b, last)
    if cfg.get('canary'):
        from quantity import Quantity
        E.check((Quantity(a, w['x1']) * Quantity(a, w['x1'])) is None, 'canary-always-fails') \
            if 'A2' in w else E.check(a != a, 'canary-always-fails')


def catalogue_sequences(E, cfg):
    """all orders of {u/v, v/u, u*v} (quantity and unit level) on predefined unit pairs, oracle after each"""
    from quantity import Quantity
    us, vs = E.choice('pair', cfg['pairs'])
    u, v = C.unit(us), C.unit(vs)
    order = E.choice('order', [(0, 1, 2), (0, 2, 1), (1, 0, 2), (1, 2, 0), (2, 0, 1), (2, 1, 0)])
    level = E.choice('level', ['unit-first', 'qty-first'])
    a = E.rational('a', 'dec')
    b = E.rational('b', 'dec')
    qa, qb = Quantity(a, u), Quantity(b, v)
    E.assume(E.And(qa.amount != 0, qb.amount != 0))
    du, dv = C.unit_dim_vector(u), C.unit_dim_vector(v)
    su, sv = C.scale(u), C.scale(v)
    ra, rb = qa.amount * su, qb.amount * sv
    info = [us, vs, list(order), level]
    comb = c02._combine
    ops = [('u/v', lambda: u / v, lambda: qa / qb, comb(du, dv, -1), su / sv, ra / rb),
           ('v/u', lambda: v / u, lambda: qb / qa, comb(dv, du, -1), sv / su, rb / ra),
           ('u*v', lambda: u * v, lambda: qa * qb, comb(du, dv, 1), su * sv, ra * rb)]
    for rnd in range(2):
        for i in order:
            name, fu, fq, vec, eu, eq = ops[i]
            first, second = ((fu, eu, 'unit'), (fq, eq, 'qty')) if level == 'unit-first' else ((fq, eq, 'qty'), (fu, eu, 'unit'))
            for fn, ex, lv in (first, second):
                c02._check_result(E, 'seq-%s-%s' % (name, lv), fn, vec, ex, info)


def noref_sequences(E, cfg):
    """derived type without reference unit (price per mass): the same operation for units of different
    currencies, in every order, must not influence each other (shared unit-operation cache)"""
    import quantity.predefined as pre
    from quantity import Quantity
    from quantity.money import Money
    eur, usd, hkd = (Money.register_currency(c) for c in ('EUR', 'USD', 'HKD'))
    PPM = C.mk_cls('PricePerMass', define_as=Money / pre.Mass)
    units = {'EUR': PPM.derive_unit_from(eur, pre.KILOGRAM), 'USD': PPM.derive_unit_from(usd, pre.KILOGRAM),
             'HKD': PPM.derive_unit_from(hkd, pre.KILOGRAM)}
    cur = {'EUR': eur, 'USD': usd, 'HKD': hkd}
    p = E.rational('p', 'dec')
    m = E.rational('m', 'dec')
    E.assume(E.And(p != 0, m != 0))
    order = E.choice('order', [('EUR', 'USD', 'HKD'), ('USD', 'EUR', 'HKD'), ('HKD', 'USD', 'EUR'), ('EUR', 'EUR', 'USD'),
                               ('USD', 'HKD', 'USD')])
    form = E.choice('form', ['mass*price', 'price*mass', 'unit*unit', 'money/mass'])
    q = Fraction(1, 100)
    for code in order:
        mass = Quantity(m, pre.KILOGRAM)
        price = Quantity(p, units[code])
        info = [list(order), form, code]
        if form == 'unit*unit':
            amnt, u = pre.KILOGRAM * units[code]
            E.check(u is cur[code] and amnt == 1, 'noref-unit-product-keeps-currency', key='hist:noref-unit-product', info=info)
            continue
        if form == 'money/mass':
            mon = Money(p, cur[code])
            r = mon / mass
            E.check(type(r) is PPM and r.unit is units[code], 'noref-quotient-unit', key='hist:noref-quotient-unit', info=info)
            E.check(r.amount == mon.amount / m, 'noref-quotient-value', key='hist:noref-quotient-value', info=info)
            continue
        r = mass * price if form == 'mass*price' else price * mass
        E.check(type(r) is Money and r.unit is cur[code], 'noref-product-keeps-currency', key='hist:noref-product-currency',
                info=info)
        d = r.amount - p * m
        E.check(E.And(E.is_int(r.amount / q), d < q, -q < d), 'noref-product-value', key='hist:noref-product-value', info=info)


def noref_fail_then_succeed(E, cfg):
    """reference-less result type: an operation that fails for lack of a unit must not influence later
    operations of the same type pair, and succeeds once the missing unit is declared"""
    import quantity.predefined as pre
    from quantity import Quantity, UndefinedResultError
    from quantity.money import Money
    eur, usd = Money.register_currency('EUR'), Money.register_currency('USD')
    PPM = C.mk_cls('PricePerMass', define_as=Money / pre.Mass)
    eur_kg = PPM.derive_unit_from(eur, pre.KILOGRAM)
    p = E.rational('p', 'dec')
    m = E.rational('m', 'dec')
    E.assume(E.And(p != 0, m != 0))
    mass_kg, mass_t = Quantity(m, pre.KILOGRAM), Quantity(m, pre.TONNE)
    order = E.choice('order', ['fail-first', 'succeed-first'])
    form = E.choice('form', ['qty', 'unit'])

    def failing():
        if form == 'qty':
            return Money(p, usd) / mass_kg
        return usd / pre.KILOGRAM

    def working():
        if form == 'qty':
            mon = Money(p, eur)
            r = mon / mass_kg
            E.check(type(r) is PPM and r.unit is eur_kg and r.amount == mon.amount / m, 'defined-quotient-after-failed-one',
                    key='hist:noref-fail-poisons', info=[order, form])
        else:
            a_, u_ = eur / pre.KILOGRAM
            E.check(u_ is eur_kg and a_ == 1, 'defined-unit-quotient-after-failed-one', key='hist:noref-fail-poisons',
                    info=[order, form])
    steps = [failing, working] if order == 'fail-first' else [working, failing]
    for st in steps:
        if st is failing:
            C.expect_raises(E, failing, UndefinedResultError, 'quotient-without-unit-undefined', [order, form])
        else:
            working()
    working()
    usd_kg = PPM.derive_unit_from(usd, pre.KILOGRAM)
    if form == 'qty':
        mon = Money(p, usd)
        r = mon / mass_kg
        E.check(type(r) is PPM and r.unit is usd_kg and r.amount == mon.amount / m, 'succeeds-once-the-unit-is-declared',
                key='hist:noref-late-unit', info=[order, form])
    else:
        a_, u_ = usd / pre.KILOGRAM
        E.check(u_ is usd_kg and a_ == 1, 'unit-quotient-succeeds-once-the-unit-is-declared', key='hist:noref-late-unit',
                info=[order, form])


def noref_converter_sequences(E, cfg):
    """quotients within a type without reference unit go through its converters: the value of one quotient does not
    depend on which quotients were evaluated before (overlapping tables, most recent first; a table that lists a pair
    in one direction only, asked in the other direction repeatedly)"""
    from decimalfp import Decimal
    from quantity import Quantity, TableConverter
    T = C.mk_cls('HScale')
    sa, sb, sc = T.new_unit('hsa'), T.new_unit('hsb'), T.new_unit('hsc')
    x = E.rational('x', 'dec')
    y = E.rational('y', 'frac')
    E.assume(E.And(x != 0, y != 0))
    case = E.choice('case', ['overlap', 'one-direction-affine', 'one-direction-int'])
    if case == 'overlap':
        general = TableConverter([(sa, sb, Decimal(2), Decimal(0)), (sa, sc, Decimal(10), Decimal(0))])
        special = TableConverter([(sa, sb, Decimal(3), Decimal(0))])           # registered later: decides sa <-> sb
        T.register_converter(general)
        T.register_converter(special)
        # name -> (function, exact value)
        ops = {'b/a': (lambda: Quantity(x, sb) / Quantity(y, sa), x / (3 * y)),
               'a/b': (lambda: Quantity(x, sa) / Quantity(y, sb), 3 * x / y),
               'c/a': (lambda: Quantity(x, sc) / Quantity(y, sa), x / (10 * y)),
               'a/c': (lambda: Quantity(x, sa) / Quantity(y, sc), 10 * x / y)}
    else:
        f, o = (Decimal('1.8'), Decimal(32)) if case == 'one-direction-affine' else (7, 3)
        T.register_converter(TableConverter([(sa, sb, f, o)]))
        ff, oo = Fraction(f), Fraction(o)
        E.assume(E.And(y * ff + oo != 0, y != oo))           # converted divisors are not zero
        ops = {'b/a': (lambda: Quantity(x, sb) / Quantity(y, sa), x / (y * ff + oo)),       # y sa -> sb: forward
               'a/b': (lambda: Quantity(x, sa) / Quantity(y, sb), x / ((y - oo) / ff)),      # y sb -> sa: reverse
               'b/b': (lambda: Quantity(x, sb) / Quantity(y, sb), x / y)}
    names = sorted(ops)
    seqs = [(a, b, a) for a in names for b in names] + [(a, a, a) for a in names]
    seq = E.choice('seq', seqs)
    for i, name in enumerate(seq):
        fn, exact = ops[name]
        try:
            r = fn()
        except ZeroDivisionError:
            E.ok('noref-converter-quotient-division-by-zero')
            continue
        except Exception as e:
            E.fail('noref-converter-quotient', key='hist:noref-converter:%s' % type(e).__name__, info=[case, list(seq), i])
            continue
        E.check(r == exact, 'noref-converter-quotient-value', key='hist:noref-converter-value', info=[case, list(seq), i, name])
    E.check([type(c).__name__ for c in T.registered_converters()] ==
            ['TableConverter'] * (2 if case == 'overlap' else 1), 'noref-converter-list-unchanged',
            key='hist:noref-converter-list')
    if case == 'overlap':
        E.check(list(T.registered_converters()) == [special, general], 'noref-converter-order-unchanged',
                key='hist:noref-converter-order')


def power_sequences(E, cfg):
    """powers: repeated, with int and non-int exponents in either order, before and after the result type exists"""
    from quantity import Quantity, UndefinedResultError
    w = _world()
    a = E.rational('a', 'dec')
    E.assume(a != 0)
    qa = Quantity(a, w['x1'])
    sx = Fraction(5, 2)
    order = E.choice('order', ['int-first', 'float-first', 'undefined-first'])

    def bad_exponent(tag):
        for label, fn in (('unit', lambda: w['x1'] ** 2.0), ('qty', lambda: qa ** 2.0)):
            C.expect_raises(E, fn, TypeError, 'non-int-exponent-rejected-' + label, [order, tag])

    def undefined(tag):
        C.expect_raises(E, lambda: w['x1'] ** 2, UndefinedResultError, 'square-undefined-before-declaration', [order, tag])
        C.expect_raises(E, lambda: qa ** 2, UndefinedResultError, 'qty-square-undefined-before-declaration', [order, tag])

    def defined(tag, A2):
        info = [order, tag]
        r = qa ** 2
        E.check(type(r) is A2 and r.amount * C.scale(r.unit) == a * a * sx * sx, 'qty-square-value', key='hist:pow-qty', info=info)
        ru = w['x1'] ** 2
        E.check(type(ru) is A2 and ru.amount * C.scale(ru.unit) == sx * sx, 'unit-square-value', key='hist:pow-unit', info=info)
        r1 = qa ** 1
        E.check(r1.unit.qty_cls is w['X'] and r1.amount * C.scale(r1.unit) == a * sx, 'qty-power-one', key='hist:pow-one', info=info)
    if order == 'float-first':
        bad_exponent('before')
    undefined('before')
    if order == 'undefined-first':
        bad_exponent('after-undefined')
    A2 = C.mk_cls('XArea', define_as=w['X'] ** 2)
    defined('first', A2)
    bad_exponent('after-int')
    defined('second', A2)


def quantized_mode_sequences(E, cfg):
    """a product / quotient / power with a quantized result evaluated repeatedly while the default rounding mode
    changes in between: each evaluation follows the mode active then (no result is carried over)"""
    from decimalfp import Decimal
    from quantity import Quantity
    import quantity.predefined as pre
    a = E.rational('a', 'dec')
    modes = E.choice('modes', [('ROUND_HALF_EVEN', 'ROUND_HALF_UP'), ('ROUND_DOWN', 'ROUND_UP'), ('ROUND_CEILING', 'ROUND_FLOOR')])
    op = E.choice('op', ['throughput*duration', 'duration*throughput'])
    if op == 'user-square':
        L = C.mk_cls('HLen', ref_unit_symbol='hl0')
        A = C.mk_cls('HArea', define_as=L ** 2, ref_unit_symbol='ha0', quantum=Decimal('0.5'))
        fn = lambda: Quantity(a, L.ref_unit) ** 2
        exact, qu, unit = a * a, Fraction(1, 2), A.ref_unit
        a_ = None
    elif op == 'volume/number':
        fn = lambda: Quantity(a, pre.KILOBYTE) / 3
        exact, qu, unit = None, Fraction(1, 8000), pre.KILOBYTE
    else:
        tp, du = Quantity(a, pre.KILOBIT_PER_SECOND), Quantity(3, pre.SECOND)
        fn = (lambda: tp * du) if op == 'throughput*duration' else (lambda: du * tp)
        exact, qu, unit = 3 * a, Fraction(1, 1000), pre.KILOBIT
    for i, mname in enumerate((modes[0], modes[1], modes[0])):
        C.set_default_mode(mname)
        r = fn()
        if op == 'volume/number':
            ex = Quantity(a, pre.KILOBYTE).amount / 3          # the held (already rounded) operand divided exactly
        else:
            ex = exact
        E.check(r.unit is unit or C.scale(r.unit) == C.scale(unit), 'mode-sequence-result-unit', key='hist:mode-seq:unit', info=[op, i])
        q_ = qu * C.scale(unit) / C.scale(r.unit)
        E.check(E.is_rounding(C.mode(mname), r.amount / q_, ex * C.scale(unit) / C.scale(r.unit) / q_),
                'mode-sequence-result-follows-active-mode', key='hist:mode-seq:value', info=[op, i, mname])


def money_quotient_after_update(E, cfg):
    """quotients of money amounts in two currencies go through the registered converter: after its rates were updated
    the same quotient is computed from the new rates (nothing kept from the earlier evaluation)"""
    from decimalfp import Decimal
    from quantity.money import Money, MoneyConverter
    eur, usd, hkd = (Money.register_currency(c) for c in ('EUR', 'USD', 'HKD'))
    a = E.rational('a', 'dec')
    b = E.rational('b', 'dec')
    ma, mb = Money(a, usd), Money(b, hkd)
    E.assume(mb.amount != 0)
    conv = MoneyConverter(eur)
    conv.update(None, [(usd, Decimal('1.25'), 1), (hkd, Decimal(10), 1)])
    order = E.choice('order', ['usd/hkd', 'hkd/usd', 'usd/eur'])
    with conv:
        for i, (r_usd, r_hkd) in enumerate((('1.25', '10'), ('1.5', '10'), ('1.5', '7.5'), ('1.25', '10'))):
            if i:
                conv.update(None, [(usd, Decimal(r_usd), 1), (hkd, Decimal(r_hkd), 1)])
            from .c11 import _own_rate            # cross rates are exchange rates in normal form (six decimals)
            ru, rh = Fraction(r_usd), Fraction(r_hkd)
            if order == 'usd/hkd':
                q, exact = ma / mb, ma.amount / (mb.amount * _own_rate(ru / rh))      # b HKD in USD: b * (USD per HKD)
            elif order == 'hkd/usd':
                E.assume(ma.amount != 0)
                q, exact = mb / ma, mb.amount / (ma.amount * _own_rate(rh / ru))
            else:
                me = Money(b, eur)
                E.assume(me.amount != 0)
                q, exact = ma / me, ma.amount / (me.amount * ru)
            E.check(q == exact, 'money-quotient-follows-current-rates', key='hist:money-quotient-after-update', info=[order, i])


def derive_then_divide(E, cfg):
    """declaring units by derive_unit_from (types with exponents other than +-1) before or after the first
    evaluation of the operand pair: same results"""
    from quantity import Quantity
    w = _world()
    V = C.mk_cls('XVel', define_as=w['X'] / w['Y'])
    ACC = C.mk_cls('XAcc', define_as=w['X'] / w['Y'] ** 2)
    AR = C.mk_cls('XArY', define_as=w['X'] * w['Y'] ** 2)
    a = E.rational('a', 'dec')
    b = E.rational('b', 'frac')
    E.assume(E.And(a != 0, b != 0))
    order = E.choice('order', ['declare-first', 'evaluate-first'])
    qa, qb = Quantity(a, w['x1']), Quantity(b, w['y1'])
    sx, sy = Fraction(5, 2), Fraction(60)
    dX, dY = {w['X']: 1}, {w['Y']: 1}

    def evaluate(tag):
        info = [order, tag]
        c02._check_result(E, 'derive-x1/y1', lambda: w['x1'] / w['y1'], c02._combine(dX, dY, -1), sx / sy, info)
        c02._check_result(E, 'derive-qa/qb', lambda: qa / qb, c02._combine(dX, dY, -1), a * sx / (b * sy), info)
        c02._check_result(E, 'derive-x1*y1', lambda: w['x1'] * w['y1'], c02._combine(dX, dY, 1), sx * sy, info)
        c02._check_result(E, 'derive-qa*qb', lambda: qa * qb, c02._combine(dX, dY, 1), a * sx * b * sy, info)

    def declare():
        ACC.derive_unit_from(w['x1'], w['y1'])
        AR.derive_unit_from(w['x1'], w['y1'])
    if order == 'declare-first':
        declare()
        evaluate('after-declaration')
    else:
        evaluate('before-declaration')
        declare()
        evaluate('after-declaration')
    V.derive_unit_from(w['x1'], w['y1'])
    evaluate('after-velocity-unit')
