"""C13 -- quantize and round follow the requested rounding mode exactly."""
from __future__ import annotations

from fractions import Fraction

from . import common as C

PROPERTY = 'C13'
BUDGET = {'quick': 150, 'thorough': 900}
LAST_CONFIG_INFO = {}

MODES = ['ROUND_05UP', 'ROUND_CEILING', 'ROUND_DOWN', 'ROUND_FLOOR', 'ROUND_HALF_DOWN',
         'ROUND_HALF_EVEN', 'ROUND_HALF_UP', 'ROUND_UP']

META = {
    'bounds': [
        'kernel _floordiv_rounded(x, y, mode): x, y unbounded integers, y > 0, all 8 modes, '
        'explicit and as configured default; same obligations on decimalfp\'s own pure-Python '
        '_floordiv_rounded (validates the rounding stub)',
        'quantize: amount unbounded rational in both flavours; quantum values from a fixed list '
        '{1, 1/7, 0.25, 25, 5/3, 0.001} in every unit of the type (unit pairs seeded in quick: '
        'Mass, Length; thorough: all linear types); 8 modes explicit and as default',
        'round(q, n): n in -3..6',
    ],
    'outside_bounds': ['negative divisor y in the kernel (quanta are positive)',
                       'fraction-flavoured amounts are N / D with D from {1, 2, 3, 7, 8, 9, 12, 13, 14, 16, 25, 64, 360, 1000} and N an unbounded '
                       'integer; they reach _floordiv_rounded as a non-reduced (numerator, denominator) pair, justified by the '
                       'scale lemma proved for common factors 2, 3, 10 (other denominators: only through the unbounded kernel result)'],
    'stubs': ['Decimal.quantize(quant, rounding): m = round_mode(self/quant), result m*quant',
              'round(Decimal, n): default rounding mode; round(Fraction, n): half-even (CPython)',
              'numerator / denominator of a symbolic rational'],
    'assumptions': ['textbook definition of the eight rounding modes over Q (symx.proxies.round_spec, '
                    'symx.concrete.round_q)'],
}
META['bounds'].append('6 call sequences of quantize: equal quantity in another unit (3 unit pairs), default mode switched between calls (3 mode pairs)')
META['bounds'].append('6 pairs of units of equal scale (l/dm3, J/Nm, Ws/J, N/(J/m), ml/cm3); round(q, n) on DataVolume: 6 units x 6 concrete amounts x 6 n x 3 modes (enumeration)')


# the fraction-flavoured path goes through symbolic numerator / denominator (non-linear link n == v*d): give
# its obligations a generous limit so that a loaded machine does not turn them into 'undecided'
SLOW = {'obl_ms': 45000, 'budget_s': 600}
DENS = [1, 2, 3, 7, 16, 25, 64, 360, 1000, 9, 12, 13, 8, 14]


def setup(mode):
    C.import_catalogue()


def jobs(tier, seed):
    rng = C.rng_for(seed, 'c13')
    out = []
    for impl in ('quantity', 'decimalfp'):
        for m in MODES:
            out.append({'fn': 'kernel', 'cfg': {'impl': impl, 'mode': m, 'explicit': True}})
            out.append({'fn': 'kernel', 'cfg': {'impl': impl, 'mode': m, 'explicit': False}})
    for m in MODES:
        for g in (2, 3, 10):
            out.append({'fn': 'kernel_scale', 'cfg': {'mode': m, 'g': g}})
    classes = C.linear_classes()
    if tier == 'quick':
        classes = [c for c in classes if c.__name__ in ('Mass', 'Length')]
    pairs = []
    for cls in classes:
        us = [u.symbol for u in cls.units() if cls.quantum is None]
        for a in us:
            for b in us:
                pairs.append([a, b])
    n_pairs = len(pairs)
    pairs = C.sample(rng, pairs, 24 if tier == 'quick' else 160)
    quants = ['1', '1/7', '0.25', '25', '5/3', '0.001']
    k = 0
    for pr in pairs:
        for fl in ('dec', 'frac'):
            qv = quants[k % len(quants)]
            mode = MODES[k % 8]
            k += 1
            out.append({'fn': 'quantize', 'cfg': {'pair': pr, 'flav': fl, 'quant': qv, 'den': DENS[k % len(DENS)],
                                                  'mode': mode, 'explicit': bool(k % 3)}, 'opts': dict(SLOW)})
    # units of equal scale (the quantum's unit is another object than the quantity's): the result keeps the
    # quantity's own unit
    for i, pr in enumerate((['l', 'dm³'], ['dm³', 'l'], ['J', 'Nm'], ['Ws', 'J'], ['N', 'J/m'], ['ml', 'cm³'])):
        out.append({'fn': 'quantize', 'cfg': {'pair': pr, 'flav': ('dec', 'frac')[i % 2], 'quant': quants[i % 6], 'den': DENS[i],
                                              'mode': MODES[(3 * i) % 8], 'explicit': bool(i % 2)}, 'opts': dict(SLOW)})
    # every mode x flavour x explicit/default on one fixed pair, all quanta
    for m in MODES:
        for fl in ('dec', 'frac'):
            for ex in (True, False):
                out.append({'fn': 'quantize', 'cfg': {'pair': ['kg', 'lb'], 'flav': fl,
                                                      'quant': quants[(MODES.index(m) + ex) % 6],
                                                      'mode': m, 'explicit': ex, 'den': DENS[(MODES.index(m) * 2 + ex) % len(DENS)],
                                                      'pass_none': MODES.index(m) % 2 == 0}, 'opts': dict(SLOW)})
    # flavour independence: both flavours are proved equal to the same *function* of the value
    # (is_rounding determines the multiple uniquely), so equality of the two results follows; a
    # direct "decimal result == fraction result" obligation relates two independent rounding
    # variables and was undecided within 20 s, it is therefore not asserted separately.
    for n in range(-3, 7):
        out.append({'fn': 'round_q', 'cfg': {'n': n, 'unit': 'lb', 'mode': 'ROUND_HALF_EVEN'}})
    for m in MODES:
        out.append({'fn': 'round_q', 'cfg': {'n': 2, 'unit': 'mi', 'mode': m}})
    out.append({'fn': 'rejects', 'cfg': {}})
    for m in ('ROUND_HALF_EVEN', 'ROUND_DOWN', 'ROUND_CEILING'):
        out.append({'fn': 'round_quantized', 'cfg': {'mode': m}})
    for pr, qv in ((['g', 'kg'], '1'), (['km', 'm'], '250'), (['kg', 'g'], '500')):
        out.append({'fn': 'quantize_sequence', 'cfg': {'pair': pr, 'quant': qv, 'case': 'other-unit', 'modes': ['ROUND_HALF_EVEN', None]}})
    for i, (m1, m2) in enumerate((('ROUND_HALF_EVEN', 'ROUND_DOWN'), ('ROUND_FLOOR', 'ROUND_CEILING'), ('ROUND_HALF_UP', 'ROUND_05UP'))):
        out.append({'fn': 'quantize_sequence', 'cfg': {'pair': [['g', 'kg'], ['km', 'm'], ['lb', 'kg']][i], 'quant': ['1', '250', '0.5'][i],
                                                       'case': 'mode-switch', 'modes': [m1, m2]}})
    out.append({'fn': 'kernel', 'cfg': {'impl': 'quantity', 'mode': 'ROUND_HALF_EVEN', 'explicit': True,
                                        'canary': True}, 'canary': True})
    out.append({'fn': 'quantize', 'cfg': {'pair': ['kg', 'kg'], 'flav': 'frac', 'quant': '0.25',
                                          'mode': 'ROUND_HALF_UP', 'explicit': True, 'den': 8, 'canary': True},
                'canary': True})
    LAST_CONFIG_INFO.clear()
    LAST_CONFIG_INFO.update({'kernel_jobs': 32, 'quantize_unit_pairs': {'enumerated': len(pairs), 'total': n_pairs},
                             'exhaustive': False})
    return out


def _mode(name):
    from decimalfp import ROUNDING
    return getattr(ROUNDING, name)


def _set_default(name):
    import decimalfp
    decimalfp.set_dflt_rounding_mode(_mode(name))


def kernel(E, cfg):
    import importlib
    mode = _mode(cfg['mode'])
    if cfg['impl'] == 'quantity':
        import quantity
        fn = quantity._floordiv_rounded
    else:
        fn = importlib.import_module('decimalfp._pydecimalfp')._floordiv_rounded
    other = 'ROUND_UP' if cfg['mode'] != 'ROUND_UP' else 'ROUND_FLOOR'
    if cfg['explicit']:
        _set_default(other)          # the default must not matter
        if cfg['impl'] == 'decimalfp':
            importlib.import_module('decimalfp._pydecimalfp').set_dflt_rounding_mode(_mode(other))
    else:
        _set_default(cfg['mode'])
        if cfg['impl'] == 'decimalfp':
            importlib.import_module('decimalfp._pydecimalfp').set_dflt_rounding_mode(mode)
    x = E.integer('x')
    y = E.integer('y')
    E.assume(y > 0)
    m = fn(x, y, mode) if cfg['explicit'] else fn(x, y)
    E.check(E.div_is_rounding(mode, m, x, y), 'kernel-matches-definition',
            key='kernel-%s-%s' % (cfg['impl'], cfg['mode']))
    E.observe('m', m)
    if cfg.get('canary'):
        E.check(E.div_is_rounding(_mode('ROUND_HALF_UP'), m, x, y), 'canary-kernel-half-up')


def kernel_scale(E, cfg):
    """lemma used by the fraction path: scaling both arguments by a common positive factor does not change
    the result of _floordiv_rounded (so a non-reduced numerator / denominator pair gives the same multiple)"""
    import quantity
    mode = _mode(cfg['mode'])
    g = cfg['g']
    x = E.integer('x')
    y = E.integer('y')
    E.assume(y > 0)
    m1 = quantity._floordiv_rounded(x, y, mode)
    m2 = quantity._floordiv_rounded(g * x, g * y, mode)
    E.check(m1 == m2, 'kernel-invariant-under-common-factor', key='kernel-scale-%s' % cfg['mode'], info=cfg)


def _quantize_common(E, cfg, q):
    from quantity import Quantity
    us, ws = cfg['pair']
    u, w = C.unit(us), C.unit(ws)
    mode = _mode(cfg['mode'])
    other = 'ROUND_UP' if cfg['mode'] != 'ROUND_UP' else 'ROUND_FLOOR'
    explicit = cfg.get('explicit', True)
    _set_default(other if explicit else cfg['mode'])
    qv = Fraction(cfg['quant'])
    from decimalfp import Decimal
    try:
        qnum = Decimal(qv)
    except ValueError:
        qnum = qv
    quant = Quantity(qnum, w)
    if explicit:
        r = q.quantize(quant, mode)
    elif cfg.get('pass_none'):
        r = q.quantize(quant, None)
    else:
        r = q.quantize(quant)
    nq = qv * C.scale(w) / C.scale(u)           # quantum expressed in q's unit (oracle)
    return r, nq, mode


def quantize(E, cfg):
    from quantity import Quantity
    u = C.unit(cfg['pair'][0])
    if cfg['flav'] == 'frac':
        # amounts N / D with D from a list (bound) and N an unbounded integer: numerator and denominator handed to
        # _floordiv_rounded are then linear in N (non-reduced pair; the kernel jobs prove that scaling both arguments
        # by a common factor does not change the result)
        a = E.rational_over('n', cfg.get('den', 7), 'frac')
    else:
        a = E.rational('a', cfg['flav'])
    q = Quantity(a, u)
    r, nq, mode = _quantize_common(E, cfg, q)
    E.check(r.unit is u, 'quantize-unit')
    E.check(type(r) is type(q), 'quantize-class')
    E.check(E.is_rounding(mode, r.amount / nq, a / nq), 'quantize-selects-multiple',
            key='quantize-selects-multiple-%s' % cfg['flav'], info=cfg)
    E.observe('res', r.amount)
    if cfg.get('canary'):
        E.check(E.is_rounding(_mode('ROUND_HALF_DOWN'), r.amount / nq, a / nq), 'canary-quantize')


def quantize_sequence(E, cfg):
    """several calls in one process: an equal quantity held in another unit, the same call under another default
    mode; every result is in the called quantity's unit and follows the mode active at its call"""
    from quantity import Quantity
    from decimalfp import Decimal
    us, vs = cfg['pair']
    u, v = C.unit(us), C.unit(vs)
    su, sv = C.scale(u), C.scale(v)
    a = E.rational('a', 'dec')
    qv = Fraction(cfg['quant'])
    quant = Quantity(Decimal(qv), v)
    case = cfg['case']
    if case == 'other-unit':
        q1 = Quantity(a, u)
        q2 = Quantity(a * Decimal(su / sv), v)            # same value, held in v
        calls = [(q1, u, a, None), (q2, v, a * su / sv, None), (q1, u, a, None)]
    else:
        q1 = Quantity(a, u)
        calls = [(q1, u, a, cfg['modes'][0]), (q1, u, a, cfg['modes'][1]), (q1, u, a, cfg['modes'][0])]
    for i, (q, qu_, amount, mname) in enumerate(calls):
        mname = mname or cfg['modes'][0]
        _set_default(mname)
        r = q.quantize(quant)
        nq = qv * sv / C.scale(qu_)
        E.check(r.unit is qu_ and type(r) is type(q), 'sequence-result-in-called-unit', key='quantize-sequence:unit',
                info=[cfg, i])
        E.check(E.is_rounding(_mode(mname), r.amount / nq, amount / nq), 'sequence-result-follows-active-mode',
                key='quantize-sequence:value', info=[cfg, i, mname])


def quantize_both_flavours(E, cfg):
    from quantity import Quantity
    u = C.unit(cfg['pair'][0])
    a = E.rational('a', 'dec')
    af = E.exact(a)
    cfg = dict(cfg, explicit=True)
    rd, nq, mode = _quantize_common(E, cfg, Quantity(a, u))
    rf, _, _ = _quantize_common(E, cfg, Quantity(af, u))
    E.check(rd.amount == rf.amount, 'quantize-flavour-independent', info=cfg)
    E.check(rd == rf, 'quantize-flavour-independent-eq')
    E.observe('res', rd.amount)


def round_q(E, cfg):
    from quantity import Quantity
    u = C.unit(cfg['unit'])
    n = cfg['n']
    _set_default(cfg['mode'])
    sh = Fraction(10) ** n
    a = E.rational('a', 'dec')
    q = Quantity(a, u)
    r = round(q, n)
    E.check(r.unit is u and type(r) is type(q), 'round-keeps-unit-class')
    E.check(E.is_rounding(_mode(cfg['mode']), r.amount * sh, a * sh), 'round-decimal-amount',
            info=cfg)
    if cfg['mode'] == 'ROUND_HALF_EVEN':
        qf = Quantity(E.exact(a), u)
        rf = round(qf, n)
        E.check(rf.unit is u, 'round-frac-unit')
        E.check(E.is_rounding(_mode('ROUND_HALF_EVEN'), rf.amount * sh, a * sh),
                'round-fraction-amount', info=cfg)
    if n == 0:
        r0 = round(q)
        E.check(E.is_rounding(_mode(cfg['mode']), r0.amount, a), 'round-default-digits')
    E.observe('rounded', r.amount)


def round_quantized(E, cfg):
    """round(q, n) on a type with a quantum (concrete amounts, enumeration): the amount rounded to n decimals, then held on
    the type's grid like every amount of the type; unit and type kept, no exception"""
    from decimalfp import Decimal
    from quantity import Quantity
    from symx.concrete import round_q as rq
    mname = cfg['mode']
    _set_default(mname)
    us = E.choice('unit', ['b', 'B', 'kb', 'kB', 'KiB', 'MiB'])
    u = C.unit(us)
    amt = E.choice('amount', ['12', '12.34', '0.0625', '-7.5', '1000.0005', '5/3'])
    n = E.choice('n', [0, 1, 2, 4, 6, -1])
    qu = Fraction(1, 8) / C.scale(u)                    # quantum of DataVolume in u
    held = rq(_mode(mname), Fraction(amt) / qu) * qu   # what the constructor holds
    q = Quantity(C.num(amt), u)
    E.check(q.amount == held, 'constructed-on-grid', key='round-quantized:ctor', info=[us, amt])
    try:
        r = round(q, n)
    except Exception as e:
        E.fail('round-quantized-does-not-raise', key='round-quantized:%s' % type(e).__name__, info=[us, amt, n, mname])
        return
    sh = Fraction(10) ** n
    rounded = rq(_mode(mname), held * sh) / sh
    exp = rq(_mode(mname), rounded / qu) * qu
    E.check(r.unit is u and type(r) is type(q), 'round-quantized-keeps-unit-class', key='round-quantized:unit-class')
    E.check(r.amount == exp, 'round-quantized-amount', key='round-quantized:amount', info=[us, amt, n, mname, str(r.amount), str(exp)])


def rejects(E, cfg):
    from quantity import Quantity
    import quantity.predefined as pre
    a = E.rational('a', 'dec')
    b = E.rational('b', 'dec')
    E.assume(b > 0)
    q = Quantity(a, pre.METRE)
    for label, quant in (('other-type', Quantity(b, pre.SECOND)),
                         ('derived-type', Quantity(b, pre.SQUARE_METRE))):
        try:
            r = q.quantize(quant)
        except TypeError:
            E.ok('quantize-rejects-' + label)
        except Exception as e:
            E.fail('quantize-rejects-' + label, key='quantize-rejects-%s:%s' % (label, type(e).__name__))
        else:
            E.fail('quantize-rejects-' + label, key='quantize-rejects-%s:returned' % label)
    t = Quantity(a, pre.CELSIUS)
    try:
        r = t.quantize(Quantity(b, pre.CELSIUS))
    except TypeError:
        E.ok('quantize-rejects-no-ref-unit')
    except Exception as e:
        E.fail('quantize-rejects-no-ref-unit', key='quantize-no-ref-unit:%s' % type(e).__name__)
    else:
        E.fail('quantize-rejects-no-ref-unit', key='quantize-no-ref-unit:returned')
