"""C14 -- table (affine) converters are exact, invertible and mutually consistent."""
from __future__ import annotations

from fractions import Fraction

from . import common as C

PROPERTY = 'C14'
BUDGET = {'quick': 120, 'thorough': 600}
LAST_CONFIG_INFO = {}

META = {
    'bounds': ['amount: unbounded rational in both flavours; user tables: factor f != 0 and offset o '
               'unbounded symbolic rationals (no rounding on the path: polynomial identities)',
               'all 9 ordered pairs and 27 triples of temperature units; user tables in mapping and '
               'list form, forward only / reverse only / both directions, missing pairs, two registered '
               'tables (fall-through in both registration orders), type without converter',
               'concrete tables with int / Decimal / Fraction numbers asked repeatedly (sequences of 3-6 conversions in '
               'both directions); separate converter instances with overlapping pairs (unregistered, removed, replaced, '
               'other type); a converter registered 1-3 times and removed once'],
    'outside_bounds': ['tables with more than 3 units', 'converters that are not TableConverter instances (C12)'],
    'stubs': [],
    'assumptions': ['temperature oracle: K = C + 273.15, F = C * 9/5 + 32 (defining fixed points of the property text)'],
}
META['bounds'].append("text constructors Quantity('7 ta', unit) / T('7 tc', unit) for tabulated, reverse-only and missing pairs")
META['bounds'].append('identity table entries (factor 1, offset 0) as int and Decimal')

TEMP = ['°C', '°F', 'K']


def setup(mode):
    C.import_catalogue()


def jobs(tier, seed):
    out = []
    pairs = [[a, b] for a in TEMP for b in TEMP]
    triples = [[a, b, c] for a in TEMP for b in TEMP for c in TEMP]
    for fl in ('dec', 'frac'):
        out.append({'fn': 'temp_pairs', 'cfg': {'pairs': pairs, 'flav': fl}})
        out.append({'fn': 'temp_triples', 'cfg': {'triples': triples, 'flav': fl}})
    out.append({'fn': 'fixed_points', 'cfg': {}})
    for form in ('mapping', 'list'):
        for fl in ('dec', 'frac'):
            out.append({'fn': 'user_table', 'cfg': {'form': form, 'flav': fl}})
    for form in ('mapping', 'list'):
        out.append({'fn': 'concrete_table', 'cfg': {'form': form}})
    out.append({'fn': 'separate_tables', 'cfg': {}})
    out.append({'fn': 'registered_twice', 'cfg': {}})
    out.append({'fn': 'two_tables', 'cfg': {'order': 0}})
    out.append({'fn': 'two_tables', 'cfg': {'order': 1}})
    out.append({'fn': 'temp_pairs', 'cfg': {'pairs': [['°F', 'K']], 'flav': 'dec', 'canary': True}, 'canary': True})
    LAST_CONFIG_INFO.clear()
    LAST_CONFIG_INFO.update({'temperature_pairs': 9, 'temperature_triples': 27, 'exhaustive': True})
    return out


def _to_c(sym, x):
    if sym == '°C':
        return x
    if sym == 'K':
        return x - Fraction('273.15')
    return (x - 32) * Fraction(5, 9)


def _from_c(sym, c):
    if sym == '°C':
        return c
    if sym == 'K':
        return c + Fraction('273.15')
    return c * Fraction(9, 5) + 32


def temp_pairs(E, cfg):
    import operator
    from quantity import Quantity
    import quantity.predefined as pre
    us, vs = E.choice('pair', cfg['pairs'])
    u, v = C.unit(us), C.unit(vs)
    a = E.rational('a', cfg['flav'])
    b = E.rational('b', 'dec')
    q = Quantity(a, u)
    r = q.convert(v)
    exp = _from_c(vs, _to_c(us, a))
    E.check(type(r) is pre.Temperature and r.unit is v, 'temp-convert-class-unit')
    E.check(r.amount == exp, 'temp-convert-formula', info=[us, vs])
    E.check(q.equiv_amount(v) == exp, 'temp-equiv-amount', info=[us, vs])
    back = r.convert(u)
    E.check(back.amount == a, 'temp-round-trip', info=[us, vs])
    E.check(r == q, 'temp-converted-equals-original')
    E.check(E.n_roundings() in (0, None), 'temp-no-rounding')
    qb = Quantity(b, v)
    ca, cb = _to_c(us, a), _to_c(vs, b)
    for name, op in (('lt', operator.lt), ('le', operator.le), ('eq', operator.eq),
                     ('ge', operator.ge), ('gt', operator.gt)):
        E.check(E.Iff(op(q, qb), op(ca, cb)), 'temp-cmp-%s-agrees' % name, info=[us, vs])
    E.observe('conv', r.amount)
    if cfg.get('canary'):
        E.check(r.amount == a * Fraction(5, 9) + Fraction('273.15'), 'canary-wrong-formula')


def temp_triples(E, cfg):
    from quantity import Quantity
    us, ws, vs = E.choice('triple', cfg['triples'])
    u, w, v = C.unit(us), C.unit(ws), C.unit(vs)
    a = E.rational('a', cfg['flav'])
    q = Quantity(a, u)
    E.check(q.convert(w).convert(v).amount == q.convert(v).amount, 'temp-via-equals-direct', info=[us, ws, vs])


def fixed_points(E, cfg):
    from decimalfp import Decimal
    from quantity import Quantity
    import quantity.predefined as pre
    Cc, F, K = pre.CELSIUS, pre.FAHRENHEIT, pre.KELVIN
    pts = [(0, Cc, Decimal('273.15'), K), (0, Cc, 32, F), (Decimal('273.15'), K, 32, F), (-40, Cc, -40, F),
           (0, K, Decimal('-459.67'), F), (0, K, Decimal('-273.15'), Cc), (100, Cc, 212, F),
           (Decimal('373.15'), K, 212, F)]
    i = E.choice('pt', list(range(len(pts))))
    x, u, y, v = pts[i]
    qx, qy = Quantity(x, u), Quantity(y, v)
    E.check(qx.convert(v).amount == y, 'fixed-point-forward', info=[str(x), u.symbol, str(y), v.symbol])
    E.check(qy.convert(u).amount == x, 'fixed-point-backward', info=[str(x), u.symbol, str(y), v.symbol])
    E.check(qx == qy and qy == qx, 'fixed-point-equal')
    E.check(not (qx < qy) and not (qx > qy) and qx <= qy and qx >= qy, 'fixed-point-order')
    # the fixed point is the unique solution: a symbolic amount that converts to y must be x
    a = E.rational('a', 'dec')
    r = Quantity(a, u).convert(v)
    E.check(E.Implies(r.amount == y, a == x), 'fixed-point-unique')


def _mk_type(E):
    T = C.mk_cls('TScale')
    a, b, c = T.new_unit('ta'), T.new_unit('tb'), T.new_unit('tc')
    return T, a, b, c


def user_table(E, cfg):
    from quantity import Quantity, TableConverter, UnitConversionError
    T, ua, ub, uc = _mk_type(E)
    f = E.rational('f', 'dec')
    o = E.rational('o', 'frac')
    g = E.rational('g', 'frac')
    p = E.rational('p', 'dec')
    E.assume(E.And(f != 0, g != 0))
    x = E.rational('x', cfg['flav'])
    qa, qb, qc = Quantity(x, ua), Quantity(x, ub), Quantity(x, uc)
    # nothing registered yet
    C.expect_raises(E, lambda: qa.convert(ub), UnitConversionError, 'no-converter-raises')
    E.check(E.Not(qa == qb), 'no-converter-eq-false')
    rows = [(ua, ub, f, o), (uc, ub, g, p)]            # a->b forward; c->b forward (b->c only reversed)
    if cfg['form'] == 'mapping':
        table = {(r[0], r[1]): (r[2], r[3]) for r in rows}
    else:
        table = rows
    T.register_converter(TableConverter(table))
    r = qa.convert(ub)
    E.check(r.unit is ub and type(r) is T, 'user-forward-class-unit')
    E.check(r.amount == x * f + o, 'user-forward-formula')
    rb = qb.convert(ua)
    E.check(rb.amount == (x - o) / f, 'user-reverse-formula')
    E.check(qa.convert(ub).convert(ua).amount == x, 'user-round-trip-forward-first')
    E.check(qb.convert(ua).convert(ub).amount == x, 'user-round-trip-reverse-first')
    E.check(qb.convert(uc).amount == (x - p) / g, 'user-reverse-only-pair')
    E.check(qc.convert(ub).amount == x * g + p, 'user-forward-second-row')
    # a <-> c is not tabulated (no chaining is promised): must raise, == False
    C.expect_raises(E, lambda: qa.convert(uc), UnitConversionError, 'missing-pair-raises')
    C.expect_raises(E, lambda: qc.convert(ua), UnitConversionError, 'missing-pair-reverse-raises')
    C.expect_raises(E, lambda: qa < qc, UnitConversionError, 'missing-pair-order-raises')
    # the same through the constructors that take a text and a target unit
    for label, fn in (('generic', lambda: Quantity('7 ta', uc)), ('own-type', lambda: T('7 tc', ua)),
                      ('fraction-text', lambda: Quantity('7/3 ta', uc))):
        C.expect_raises(E, fn, UnitConversionError, 'missing-pair-text-constructor-raises-' + label)
    tq = Quantity('7 ta', ub)
    E.check(tq.unit is ub and tq.amount == 7 * f + o, 'text-constructor-with-target-unit-converts', key='text-ctor:forward')
    tq = T('7 tb', ua)
    E.check(tq.unit is ua and tq.amount == (7 - o) / f, 'text-constructor-with-target-unit-converts-reverse', key='text-ctor:reverse')
    E.check(E.Not(qa == qc), 'missing-pair-eq-false')
    E.check(qa.convert(ua).amount == x, 'same-unit-identity')
    y = E.rational('y', 'dec')
    qy = Quantity(y, ub)
    E.check(E.Iff(qa == qy, x * f + o == y), 'user-eq-agrees-with-table')
    E.check(E.Iff(qy == qa, x * f + o == y), 'user-eq-agrees-with-table-reversed')
    E.check(E.Iff(qy < qa, y < x * f + o), 'user-lt-agrees-with-table')
    E.check(E.Iff(qa < qy, (y - o) / f > x), 'user-lt-agrees-with-reverse-formula')
    E.observe('fwd', r.amount)


NUMS = [('int', 5, 3), ('int-neg', -3, 7), ('decimal', '2.5', '-0.75'), ('fraction', Fraction(9, 7), Fraction(1, 3)),
        ('int-offset0', 7, 0), ('int-factor1', 1, 11), ('pow2', 4, -2), ('identity', 1, 0), ('identity-decimal', '1', '0')]


def concrete_table(E, cfg):
    """tables with concrete numbers of every exact kind (plain int included); every conversion asked repeatedly:
    the n-th answer is the first one"""
    from decimalfp import Decimal
    from quantity import Quantity, TableConverter
    T, ua, ub, uc = _mk_type(E)
    kind, f, o = E.choice('numbers', NUMS)
    if kind in ('decimal', 'identity-decimal'):
        f, o = Decimal(f), Decimal(o)
    ff, oo = Fraction(f), Fraction(o)
    rows = [(ua, ub, f, o)]
    table = {(r[0], r[1]): (r[2], r[3]) for r in rows} if cfg['form'] == 'mapping' else rows
    T.register_converter(TableConverter(table))
    x = E.rational('x', 'dec')
    y = E.rational('y', 'frac')
    order = E.choice('order', ['fwd-first', 'rev-first', 'rev-only'])
    steps = {'fwd-first': 'FRFRRF', 'rev-first': 'RFRRFF', 'rev-only': 'RRR'}[order]
    for i, st in enumerate(steps):
        if st == 'F':
            E.check(Quantity(x, ua).convert(ub).amount == x * ff + oo, 'concrete-forward-formula',
                    key='concrete:forward', info=[kind, order, i])
            E.check(Quantity(y, ua).convert(ub).amount == y * ff + oo, 'concrete-forward-formula',
                    key='concrete:forward', info=[kind, order, i])
        else:
            E.check(Quantity(x, ub).convert(ua).amount == (x - oo) / ff, 'concrete-reverse-formula',
                    key='concrete:reverse', info=[kind, order, i])
            E.check(Quantity(y, ub).convert(ua).amount == (y - oo) / ff, 'concrete-reverse-formula',
                    key='concrete:reverse', info=[kind, order, i])
    E.check(Quantity(x, ub).convert(ua).convert(ub).amount == x, 'concrete-round-trip', key='concrete:round-trip',
            info=[kind, order])
    qa, qb = Quantity(x, ua), Quantity(y, ub)
    E.check(E.Iff(qa == qb, x * ff + oo == y), 'concrete-eq-agrees', key='concrete:eq', info=[kind, order])
    E.check(E.Iff(qb < qa, y < x * ff + oo), 'concrete-lt-agrees', key='concrete:lt', info=[kind, order])
    E.check(E.Iff(qa < qb, x < (y - oo) / ff), 'concrete-lt-agrees-reverse', key='concrete:lt', info=[kind, order])


def separate_tables(E, cfg):
    """a table converter knows exactly the pairs of its own table: other instances (registered, removed or never
    registered, in list or mapping form) do not leak into it"""
    from quantity import Quantity, TableConverter, UnitConversionError
    import quantity.predefined as pre
    T, ua, ub, uc = _mk_type(E)
    x = E.rational('x', 'dec')
    case = E.choice('case', ['unregistered-temperature', 'replaced-opposite-direction', 'other-type-table',
                             'removed-table', 'unregistered-same-pair'])
    form = E.choice('form', ['list', 'mapping'])

    def mk(rows):
        return TableConverter(rows if form == 'list' else {(r[0], r[1]): (r[2], r[3]) for r in rows})
    if case == 'unregistered-temperature':
        mk([(pre.CELSIUS, pre.KELVIN, 1, 273)])            # built, never registered
        E.check(Quantity(x, pre.CELSIUS).convert(pre.KELVIN).amount == x + Fraction('273.15'),
                'unregistered-table-does-not-change-temperature', key='separate:temperature')
        E.check(Quantity(x, pre.KELVIN).convert(pre.CELSIUS).amount == x - Fraction('273.15'),
                'unregistered-table-does-not-change-temperature', key='separate:temperature')
        E.check(Quantity(0, pre.CELSIUS) == Quantity(Fraction('273.15'), pre.KELVIN)
                and Quantity(Fraction('273.15'), pre.KELVIN) == Quantity(0, pre.CELSIUS),
                'unregistered-table-does-not-change-temperature-eq', key='separate:temperature-eq')
    elif case == 'replaced-opposite-direction':
        old = mk([(ua, ub, 5, 3)])
        T.register_converter(old)
        E.check(Quantity(x, ua).convert(ub).amount == x * 5 + 3, 'old-table-forward', key='separate:old')
        T.remove_converter(old)
        new = mk([(ub, ua, Fraction(1, 4), 0)])
        T.register_converter(new)
        E.check(Quantity(x, ub).convert(ua).amount == x / 4, 'new-table-forward', key='separate:new-forward')
        E.check(Quantity(x, ua).convert(ub).amount == x * 4, 'new-table-reverse', key='separate:new-reverse')
    elif case == 'other-type-table':
        T2 = C.mk_cls('TScale2')
        va, vb = T2.new_unit('va'), T2.new_unit('vb')
        T2.register_converter(mk([(va, vb, 2, 1)]))
        T.register_converter(mk([(ua, ub, 3, 0)]))
        E.check(Quantity(x, va).convert(vb).amount == 2 * x + 1, 'own-table', key='separate:own')
        E.check(Quantity(x, ua).convert(ub).amount == 3 * x, 'own-table', key='separate:own')
        C.expect_raises(E, lambda: Quantity(x, ua).convert(uc), UnitConversionError, 'missing-pair-raises')
    elif case == 'removed-table':
        t1 = mk([(ua, ub, 5, 3)])
        t2 = mk([(ub, uc, 2, 0)])
        T.register_converter(t1)
        T.register_converter(t2)
        E.check(Quantity(x, ua).convert(ub).amount == 5 * x + 3, 'both-registered', key='separate:both')
        T.remove_converter(t1)
        C.expect_raises(E, lambda: Quantity(x, ua).convert(ub), UnitConversionError, 'pair-of-removed-table-raises',
                        [form])
        E.check(Quantity(x, ub).convert(uc).amount == 2 * x, 'remaining-table-works', key='separate:remaining')
        E.check(E.Not(Quantity(x, ua) == Quantity(5 * x + 3, ub)), 'pair-of-removed-table-eq-false',
                key='separate:removed-eq')
    else:
        T.register_converter(mk([(ua, ub, 5, 3)]))
        mk([(ua, ub, 7, 1)])                                   # same pair, other numbers, never registered
        mk([(ub, ua, 2, 2)])
        E.check(Quantity(x, ua).convert(ub).amount == 5 * x + 3, 'registered-table-decides', key='separate:decides')
        E.check(Quantity(x, ub).convert(ua).amount == (x - 3) / 5, 'registered-table-decides', key='separate:decides')


def registered_twice(E, cfg):
    """registering a converter again has no effect, so one removal ends its applicability"""
    from quantity import Quantity, TableConverter, UnitConversionError
    T, ua, ub, uc = _mk_type(E)
    x = E.rational('x', 'dec')
    t = TableConverter([(ua, ub, 5, 3)])
    n = E.choice('registrations', [1, 2, 3])
    for _ in range(n):
        T.register_converter(t)
    E.check(len(list(T.registered_converters())) == 1, 'registered-once', key='twice:listed-once', info=[n])
    E.check(Quantity(x, ua).convert(ub).amount == 5 * x + 3, 'registered-converts', key='twice:converts')
    T.remove_converter(t)
    C.expect_raises(E, lambda: Quantity(x, ua).convert(ub), UnitConversionError, 'removed-converter-not-applicable', [n])
    C.expect_raises(E, lambda: Quantity(x, ua) < Quantity(x, ub), UnitConversionError, 'removed-converter-order-raises', [n])
    E.check(E.Not(Quantity(x, ua) == Quantity(5 * x + 3, ub)), 'removed-converter-eq-false', key='twice:eq', info=[n])
    C.expect_raises(E, lambda: T.remove_converter(t), ValueError, 'second-removal-raises', [n])


def two_tables(E, cfg):
    from quantity import Quantity, TableConverter, UnitConversionError
    T, ua, ub, uc = _mk_type(E)
    f = E.rational('f', 'dec')
    o = E.rational('o', 'dec')
    E.assume(f != 0)
    x = E.rational('x', 'dec')
    t1 = TableConverter({(ua, ub): (f, o)})
    t2 = TableConverter([(ub, uc, Fraction(3, 2), Fraction(-7))])
    for t in ((t1, t2) if cfg['order'] == 0 else (t2, t1)):
        T.register_converter(t)
    qa, qb, qc = Quantity(x, ua), Quantity(x, ub), Quantity(x, uc)
    E.check(qa.convert(ub).amount == x * f + o, 'two-tables-first-pair')
    E.check(qb.convert(uc).amount == x * Fraction(3, 2) - 7, 'two-tables-second-pair')
    E.check(qc.convert(ub).amount == (x + 7) / Fraction(3, 2), 'two-tables-second-pair-reverse')
    E.check(qb.convert(ua).amount == (x - o) / f, 'two-tables-first-pair-reverse')
    C.expect_raises(E, lambda: qa.convert(uc), UnitConversionError, 'two-tables-missing-pair-raises')
    import quantity.predefined as pre
    # registering another table on Temperature must not hide the predefined one
    R = pre.Temperature.new_unit('°R', 'Rankine')
    pre.Temperature.register_converter(TableConverter({(pre.KELVIN, R): (Fraction(9, 5), 0)}))
    t = Quantity(x, pre.CELSIUS)
    E.check(t.convert(pre.KELVIN).amount == x + Fraction('273.15'), 'extra-table-keeps-predefined')
    E.check(Quantity(x, pre.KELVIN).convert(R).amount == x * Fraction(9, 5), 'extra-table-used')
    E.check(Quantity(x, R).convert(pre.KELVIN).amount == x * Fraction(5, 9), 'extra-table-reverse')
