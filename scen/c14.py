"""C14 -- table (affine) converters are exact, invertible and mutually consistent."""
from __future__ import annotations

from fractions import Fraction

from . import common as C

PROPERTY = 'C14'
BUDGET = {'quick': 120, 'thorough': 600}
LAST_CONFIG_INFO = {}

META = {
    'bounds': ['amount: unbounded rational in both flavours; user tables: factor f != 0 and offset o '
               'unbounded symbolic rationals (no rounding on the path: polynomial identities)',
               'all 9 ordered pairs and 27 triples of temperature units; user tables in mapping and '
               'list form, forward only / reverse only / both directions, missing pairs, two registered '
               'tables (fall-through in both registration orders), type without converter'],
    'outside_bounds': ['tables with more than 3 units', 'converters that are not TableConverter instances (C12)'],
    'stubs': [],
    'assumptions': ['temperature oracle: K = C + 273.15, F = C * 9/5 + 32 (defining fixed points of the property text)'],
}

TEMP = ['°C', '°F', 'K']


def setup(mode):
    C.import_catalogue()


def jobs(tier, seed):
    out = []
    pairs = [[a, b] for a in TEMP for b in TEMP]
    triples = [[a, b, c] for a in TEMP for b in TEMP for c in TEMP]
    for fl in ('dec', 'frac'):
        out.append({'fn': 'temp_pairs', 'cfg': {'pairs': pairs, 'flav': fl}})
        out.append({'fn': 'temp_triples', 'cfg': {'triples': triples, 'flav': fl}})
    out.append({'fn': 'fixed_points', 'cfg': {}})
    for form in ('mapping', 'list'):
        for fl in ('dec', 'frac'):
            out.append({'fn': 'user_table', 'cfg': {'form': form, 'flav': fl}})
    out.append({'fn': 'two_tables', 'cfg': {'order': 0}})
    out.append({'fn': 'two_tables', 'cfg': {'order': 1}})
    out.append({'fn': 'temp_pairs', 'cfg': {'pairs': [['°F', 'K']], 'flav': 'dec', 'canary': True}, 'canary': True})
    LAST_CONFIG_INFO.clear()
    LAST_CONFIG_INFO.update({'temperature_pairs': 9, 'temperature_triples': 27, 'exhaustive': True})
    return out


def _to_c(sym, x):
    if sym == '°C':
        return x
    if sym == 'K':
        return x - Fraction('273.15')
    return (x - 32) * Fraction(5, 9)


def _from_c(sym, c):
    if sym == '°C':
        return c
    if sym == 'K':
        return c + Fraction('273.15')
    return c * Fraction(9, 5) + 32


def temp_pairs(E, cfg):
    import operator
    from quantity import Quantity
    import quantity.predefined as pre
    us, vs = E.choice('pair', cfg['pairs'])
    u, v = C.unit(us), C.unit(vs)
    a = E.rational('a', cfg['flav'])
    b = E.rational('b', 'dec')
    q = Quantity(a, u)
    r = q.convert(v)
    exp = _from_c(vs, _to_c(us, a))
    E.check(type(r) is pre.Temperature and r.unit is v, 'temp-convert-class-unit')
    E.check(r.amount == exp, 'temp-convert-formula', info=[us, vs])
    E.check(q.equiv_amount(v) == exp, 'temp-equiv-amount', info=[us, vs])
    back = r.convert(u)
    E.check(back.amount == a, 'temp-round-trip', info=[us, vs])
    E.check(r == q, 'temp-converted-equals-original')
    E.check(E.n_roundings() in (0, None), 'temp-no-rounding')
    qb = Quantity(b, v)
    ca, cb = _to_c(us, a), _to_c(vs, b)
    for name, op in (('lt', operator.lt), ('le', operator.le), ('eq', operator.eq),
                     ('ge', operator.ge), ('gt', operator.gt)):
        E.check(E.Iff(op(q, qb), op(ca, cb)), 'temp-cmp-%s-agrees' % name, info=[us, vs])
    E.observe('conv', r.amount)
    if cfg.get('canary'):
        E.check(r.amount == a * Fraction(5, 9) + Fraction('273.15'), 'canary-wrong-formula')


def temp_triples(E, cfg):
    from quantity import Quantity
    us, ws, vs = E.choice('triple', cfg['triples'])
    u, w, v = C.unit(us), C.unit(ws), C.unit(vs)
    a = E.rational('a', cfg['flav'])
    q = Quantity(a, u)
    E.check(q.convert(w).convert(v).amount == q.convert(v).amount, 'temp-via-equals-direct', info=[us, ws, vs])


def fixed_points(E, cfg):
    from decimalfp import Decimal
    from quantity import Quantity
    import quantity.predefined as pre
    Cc, F, K = pre.CELSIUS, pre.FAHRENHEIT, pre.KELVIN
    pts = [(0, Cc, Decimal('273.15'), K), (0, Cc, 32, F), (Decimal('273.15'), K, 32, F), (-40, Cc, -40, F),
           (0, K, Decimal('-459.67'), F), (0, K, Decimal('-273.15'), Cc), (100, Cc, 212, F),
           (Decimal('373.15'), K, 212, F)]
    i = E.choice('pt', list(range(len(pts))))
    x, u, y, v = pts[i]
    qx, qy = Quantity(x, u), Quantity(y, v)
    E.check(qx.convert(v).amount == y, 'fixed-point-forward', info=[str(x), u.symbol, str(y), v.symbol])
    E.check(qy.convert(u).amount == x, 'fixed-point-backward', info=[str(x), u.symbol, str(y), v.symbol])
    E.check(qx == qy and qy == qx, 'fixed-point-equal')
    E.check(not (qx < qy) and not (qx > qy) and qx <= qy and qx >= qy, 'fixed-point-order')
    # the fixed point is the unique solution: a symbolic amount that converts to y must be x
    a = E.rational('a', 'dec')
    r = Quantity(a, u).convert(v)
    E.check(E.Implies(r.amount == y, a == x), 'fixed-point-unique')


def _mk_type(E):
    T = C.mk_cls('TScale')
    a, b, c = T.new_unit('ta'), T.new_unit('tb'), T.new_unit('tc')
    return T, a, b, c


def user_table(E, cfg):
    from quantity import Quantity, TableConverter, UnitConversionError
    T, ua, ub, uc = _mk_type(E)
    f = E.rational('f', 'dec')
    o = E.rational('o', 'frac')
    g = E.rational('g', 'frac')
    p = E.rational('p', 'dec')
    E.assume(E.And(f != 0, g != 0))
    x = E.rational('x', cfg['flav'])
    qa, qb, qc = Quantity(x, ua), Quantity(x, ub), Quantity(x, uc)
    # nothing registered yet
    C.expect_raises(E, lambda: qa.convert(ub), UnitConversionError, 'no-converter-raises')
    E.check(E.Not(qa == qb), 'no-converter-eq-false')
    rows = [(ua, ub, f, o), (uc, ub, g, p)]            # a->b forward; c->b forward (b->c only reversed)
    if cfg['form'] == 'mapping':
        table = {(r[0], r[1]): (r[2], r[3]) for r in rows}
    else:
        table = rows
    T.register_converter(TableConverter(table))
    r = qa.convert(ub)
    E.check(r.unit is ub and type(r) is T, 'user-forward-class-unit')
    E.check(r.amount == x * f + o, 'user-forward-formula')
    rb = qb.convert(ua)
    E.check(rb.amount == (x - o) / f, 'user-reverse-formula')
    E.check(qa.convert(ub).convert(ua).amount == x, 'user-round-trip-forward-first')
    E.check(qb.convert(ua).convert(ub).amount == x, 'user-round-trip-reverse-first')
    E.check(qb.convert(uc).amount == (x - p) / g, 'user-reverse-only-pair')
    E.check(qc.convert(ub).amount == x * g + p, 'user-forward-second-row')
    # a <-> c is not tabulated (no chaining is promised): must raise, == False
    C.expect_raises(E, lambda: qa.convert(uc), UnitConversionError, 'missing-pair-raises')
    C.expect_raises(E, lambda: qc.convert(ua), UnitConversionError, 'missing-pair-reverse-raises')
    C.expect_raises(E, lambda: qa < qc, UnitConversionError, 'missing-pair-order-raises')
    E.check(E.Not(qa == qc), 'missing-pair-eq-false')
    E.check(qa.convert(ua).amount == x, 'same-unit-identity')
    y = E.rational('y', 'dec')
    qy = Quantity(y, ub)
    E.check(E.Iff(qa == qy, x * f + o == y), 'user-eq-agrees-with-table')
    E.check(E.Iff(qy == qa, x * f + o == y), 'user-eq-agrees-with-table-reversed')
    E.check(E.Iff(qy < qa, y < x * f + o), 'user-lt-agrees-with-table')
    E.check(E.Iff(qa < qy, (y - o) / f > x), 'user-lt-agrees-with-reverse-formula')
    E.observe('fwd', r.amount)


def two_tables(E, cfg):
    from quantity import Quantity, TableConverter, UnitConversionError
    T, ua, ub, uc = _mk_type(E)
    f = E.rational('f', 'dec')
    o = E.rational('o', 'dec')
    E.assume(f != 0)
    x = E.rational('x', 'dec')
    t1 = TableConverter({(ua, ub): (f, o)})
    t2 = TableConverter([(ub, uc, Fraction(3, 2), Fraction(-7))])
    for t in ((t1, t2) if cfg['order'] == 0 else (t2, t1)):
        T.register_converter(t)
    qa, qb, qc = Quantity(x, ua), Quantity(x, ub), Quantity(x, uc)
    E.check(qa.convert(ub).amount == x * f + o, 'two-tables-first-pair')
    E.check(qb.convert(uc).amount == x * Fraction(3, 2) - 7, 'two-tables-second-pair')
    E.check(qc.convert(ub).amount == (x + 7) / Fraction(3, 2), 'two-tables-second-pair-reverse')
    E.check(qb.convert(ua).amount == (x - o) / f, 'two-tables-first-pair-reverse')
    C.expect_raises(E, lambda: qa.convert(uc), UnitConversionError, 'two-tables-missing-pair-raises')
    import quantity.predefined as pre
    # registering another table on Temperature must not hide the predefined one
    R = pre.Temperature.new_unit('°R', 'Rankine')
    pre.Temperature.register_converter(TableConverter({(pre.KELVIN, R): (Fraction(9, 5), 0)}))
    t = Quantity(x, pre.CELSIUS)
    E.check(t.convert(pre.KELVIN).amount == x + Fraction('273.15'), 'extra-table-keeps-predefined')
    E.check(Quantity(x, pre.KELVIN).convert(R).amount == x * Fraction(9, 5), 'extra-table-used')
    E.check(Quantity(x, R).convert(pre.KELVIN).amount == x * Fraction(5, 9), 'extra-table-reverse')
