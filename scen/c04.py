"""C04 -- equality and ordering agree with exact reference values."""
from __future__ import annotations

import operator

from . import common as C

PROPERTY = 'C04'
BUDGET = {'quick': 120, 'thorough': 900}
LAST_CONFIG_INFO = {}

META = {
    'bounds': [
        'amounts: unbounded rationals, every mixture of decimal / fraction flavour per operand',
        'all ordered in-type unit pairs of the 13 linear predefined types (both tiers); unit '
        'triples seeded (quick) / exhaustive (thorough); unit-vs-unit comparisons exhaustive',
        'user type with 7 units declared in every accepted form (int in a term, int * unit, Decimal, Fraction, chained): all 49 pairs',
    ],
    'outside_bounds': ['types converted through converters (C14), money (C08)',
                       'sorting of more than 3 quantities'],
    'stubs': ['decimalfp.Decimal(x, precision) rounding contract (DataVolume constructor only)'],
    'assumptions': ['reference value oracle: amount * own scale walk of unit.definition'],
}
META['bounds'].append('portions of concrete allocations (2 amounts x 3 ratio lists x 4 receivers; enumeration) compared with symbolic quantities in 3 other units')
META['bounds'].append('three unit pairs with non-decimal ratio (h/min, yd/ft, lb/kg) under the faithful model of result kinds (option repr_fork)')
META['bounds'].append('comparisons of 5 Mass unit pairs while a table / function converter is registered on Mass, and after its removal')

OPS = [('lt', operator.lt), ('le', operator.le), ('eq', operator.eq),
       ('ne', operator.ne), ('ge', operator.ge), ('gt', operator.gt)]


def setup(mode):
    C.import_catalogue()


def jobs(tier, seed):
    rng = C.rng_for(seed, 'c04')
    pairs, triples = [], []
    for cls in C.linear_classes():
        us = [u.symbol for u in cls.units()]
        for a in us:
            for b in us:
                pairs.append([a, b])
                for c in us:
                    triples.append([a, b, c])
    n_tr = len(triples)
    triples = C.sample(rng, triples, 600 if tier == 'quick' else 6000)
    out = []
    fl = ['dec', 'frac']
    for i, ch in enumerate(C.chunks(pairs, 32)):
        out.append({'fn': 'cmp_pair', 'cfg': {'fa': fl[i % 2], 'fb': fl[(i // 2) % 2], 'pairs': ch}})
    for i, ch in enumerate(C.chunks(triples, 32 if tier == 'quick' else 64)):
        out.append({'fn': 'cmp_triple', 'cfg': {'fl': [fl[i % 2], fl[(i // 2) % 2], fl[(i // 4) % 2]],
                                                'triples': ch}})
    for ch in C.chunks(pairs, 8):
        out.append({'fn': 'cmp_units', 'cfg': {'pairs': ch}})
    out.append({'fn': 'cmp_units_user', 'cfg': {}})
    out.append({'fn': 'cmp_with_converter', 'cfg': {}})
    # unit pairs with a non-decimal ratio under the faithful model of result kinds (Decimal when the value is a finite
    # decimal, Fraction otherwise; DESIGN 2.2): code that dispatches on the kind of a converted amount
    for pr in (['h', 'min'], ['yd', 'ft'], ['lb', 'kg']):
        for fa_, fb_ in (('frac', 'dec'), ('dec', 'frac')):
            out.append({'fn': 'cmp_pair', 'cfg': {'fa': fa_, 'fb': fb_, 'pairs': [pr]}, 'opts': {'repr_fork': True}})
    for ri in range(4):
        out.append({'fn': 'cmp_after_allocate', 'cfg': {'recv': ri}})
    out.append({'fn': 'cmp_user', 'cfg': {'fa': 'dec', 'fb': 'frac'}})
    out.append({'fn': 'cmp_user', 'cfg': {'fa': 'frac', 'fb': 'dec'}})
    out.append({'fn': 'cmp_pair', 'cfg': {'fa': 'dec', 'fb': 'frac', 'pairs': [['km', 'mi']],
                                          'canary': True}, 'canary': True})
    LAST_CONFIG_INFO.clear()
    LAST_CONFIG_INFO.update({'in_type_pairs': {'enumerated': len(pairs), 'total': len(pairs)},
                             'in_type_triples': {'enumerated': len(triples), 'total': n_tr},
                             'exhaustive': False})
    return out


def cmp_pair(E, cfg):
    from quantity import Quantity
    us, vs = E.choice('pair', cfg['pairs'])
    u, v = C.unit(us), C.unit(vs)
    a = E.rational('a', cfg['fa'])
    b = E.rational('b', cfg['fb'])
    qa, qb = Quantity(a, u), Quantity(b, v)
    ra, rb = qa.amount * C.scale(u), qb.amount * C.scale(v)
    res = {}
    for name, op in OPS:
        r = op(qa, qb)
        res[name] = r
        E.check(E.Iff(r, op(ra, rb)), 'cmp-%s-agrees-with-reference' % name, info=[us, vs])
    # consequences, asserted on the values actually returned
    E.check(E.Or(E.And(res['lt'], E.Not(res['eq']), E.Not(res['gt'])),
                 E.And(E.Not(res['lt']), res['eq'], E.Not(res['gt'])),
                 E.And(E.Not(res['lt']), E.Not(res['eq']), res['gt'])), 'trichotomy')
    E.check(E.Iff(res['ne'], E.Not(res['eq'])), 'ne-is-not-eq')
    E.check(E.Iff(res['le'], E.Or(res['lt'], res['eq'])), 'le-is-lt-or-eq')
    E.check(E.Iff(res['ge'], E.Or(res['gt'], res['eq'])), 'ge-is-gt-or-eq')
    E.check(E.Iff(qb == qa, res['eq']), 'eq-symmetric')
    E.check(E.Iff(qb > qa, res['lt']), 'lt-gt-mirror')
    E.check(qa == qa, 'eq-reflexive')
    E.check(E.Not(qa < qa), 'lt-irreflexive')
    E.observe('ra', ra)
    if cfg.get('canary'):
        E.check(E.Iff(res['lt'], rb < ra), 'canary-lt-reversed')


def cmp_triple(E, cfg):
    from quantity import Quantity
    us, vs, ws = E.choice('triple', cfg['triples'])
    u, v, w = C.unit(us), C.unit(vs), C.unit(ws)
    fl = cfg['fl']
    a, b, c = E.rational('a', fl[0]), E.rational('b', fl[1]), E.rational('c', fl[2])
    qa, qb, qc = Quantity(a, u), Quantity(b, v), Quantity(c, w)
    E.check(E.Implies(E.And(qa == qb, qb == qc), qa == qc), 'eq-transitive')
    E.check(E.Implies(E.And(qa < qb, qb < qc), qa < qc), 'lt-transitive')
    E.check(E.Implies(E.And(qa <= qb, qb <= qc), qa <= qc), 'le-transitive')
    E.check(E.Implies(E.And(qa == qb, qb < qc), qa < qc), 'eq-lt-compatible')
    # sorting: every path of the real comparison sequence ends ordered by reference value
    lst = sorted([qa, qb, qc])
    refs = [q.amount * C.scale(q.unit) for q in lst]
    E.check(E.And(refs[0] <= refs[1], refs[1] <= refs[2]), 'sorted-by-reference-value')
    ids = sorted(id(q) for q in lst)
    E.check(ids == sorted([id(qa), id(qb), id(qc)]), 'sorted-is-permutation')
    E.observe('sorted', refs)


def cmp_units(E, cfg):
    us, vs = E.choice('pair', cfg['pairs'])
    u, v = C.unit(us), C.unit(vs)
    su, sv = C.scale(u), C.scale(v)
    for name, op in OPS:
        E.check(bool(op(u, v)) == bool(op(su, sv)), 'unit-%s-by-scale' % name, info=[us, vs])


def cmp_user(E, cfg):
    """units of a user type declared in every accepted form (int in a term, int * unit, Decimal, Fraction, chained)"""
    from quantity import Quantity
    T, units = C.user_linear_type()
    syms = sorted(units)
    us, vs = E.choice('pair', [(x, y) for x in syms for y in syms])
    (u, su), (v, sv) = units[us], units[vs]
    a = E.rational('a', cfg['fa'])
    b = E.rational('b', cfg['fb'])
    qa, qb = Quantity(a, u), Quantity(b, v)
    for name, op in OPS:
        E.check(E.Iff(op(qa, qb), op(a * su, b * sv)), 'user-cmp-%s-agrees-with-reference' % name,
                key='user-cmp:' + name, info=[us, vs])
        E.check(bool(op(u, v)) == bool(op(su, sv)), 'user-unit-%s-by-scale' % name, key='user-unit-cmp:' + name,
                info=[us, vs])
    lst = sorted([qa, qb, Quantity(a, v)])
    refs = [q.amount * units[q.unit.symbol][1] for q in lst]
    E.check(E.And(refs[0] <= refs[1], refs[1] <= refs[2]), 'user-sorted-by-reference-value', key='user-cmp:sorted',
            info=[us, vs])


def cmp_after_allocate(E, cfg):
    """quantities that come out of another operation (portions of an allocation, adjusted in steps of a quantum)
    compare like freshly built ones: by their current value in the reference unit"""
    from decimalfp import Decimal
    from quantity import Quantity
    import quantity.predefined as pre
    recv = [('kB', pre.DataVolume), ('b', pre.DataVolume), ('MiB', pre.DataVolume), ('lb', pre.Mass)][cfg['recv']]
    u = C.unit(recv[0])
    amt = E.choice('amount', ['10', '7.125'])
    ratios = E.choice('ratios', [[38, 5, 2, 15], [1, 1, 1], [3, 7]])
    q = Quantity(Decimal(amt), u)
    portions, rem = q.allocate(ratios)
    others = [v for v in recv[1].units() if v is not u][:3]
    x = E.rational('x', 'dec')
    for i, p in enumerate(portions):
        ref_p = p.amount * C.scale(p.unit)
        for v in others:
            same = Quantity(p.amount * C.scale(u) / C.scale(v), v) if recv[1].quantum is None else p.convert(v)
            info = [recv[0], amt, ratios, i, v.symbol]
            E.check(p == same and same == p, 'portion-equals-its-conversion', key='cmp-portion:eq', info=info)
            E.check(not (p < same) and not (p > same) and p <= same and p >= same, 'portion-order-vs-its-conversion',
                    key='cmp-portion:order', info=info)
            o = Quantity(x, v)
            ref_o = o.amount * C.scale(v)
            for name, op in OPS:
                E.check(E.Iff(op(p, o), op(ref_p, ref_o)), 'portion-cmp-%s-agrees-with-reference' % name,
                        key='cmp-portion:' + name, info=info)
    lst = sorted(portions + [p.convert(others[0]) for p in portions])
    refs = [z.amount * C.scale(z.unit) for z in lst]
    E.check(all(refs[i] <= refs[i + 1] for i in range(len(refs) - 1)), 'portions-sorted-by-reference-value',
            key='cmp-portion:sorted', info=[recv[0], amt, ratios])


def cmp_with_converter(E, cfg):
    """a converter registered on a type with reference unit (rounded table factors, a function) does not take part in
    comparisons between units of the type"""
    from decimalfp import Decimal
    from quantity import Quantity, TableConverter
    import quantity.predefined as pre
    kind = E.choice('converter', ['table', 'function'])
    if kind == 'table':
        conv = TableConverter({(pre.POUND, pre.KILOGRAM): (Decimal('0.4536'), 0), (pre.KILOGRAM, pre.GRAM): (Decimal(999), 0)})
    else:
        def conv(qty, to_unit):
            return qty.amount * Decimal('1.5')
    pre.Mass.register_converter(conv)
    us, vs = E.choice('pair', [('kg', 'lb'), ('lb', 'kg'), ('kg', 'g'), ('g', 'lb'), ('oz', 'kg')])
    u, v = C.unit(us), C.unit(vs)
    a = E.rational('a', 'dec')
    b = E.rational('b', 'frac')
    for tag in ('registered', 'removed'):
        qa, qb = Quantity(a, u), Quantity(b, v)
        ra, rb = a * C.scale(u), b * C.scale(v)
        for name, op in OPS:
            E.check(E.Iff(op(qa, qb), op(ra, rb)), 'cmp-%s-agrees-with-reference-with-converter' % name,
                    key='cmp-with-converter:' + name, info=[kind, us, vs, tag])
        if tag == 'registered':
            pre.Mass.remove_converter(conv)


def cmp_units_user(E, cfg):
    """units of a user type with a quantum whose scales are not multiples of the quantum compare by scale"""
    from fractions import Fraction
    from quantity.term import Term
    S = C.mk_cls('Stock', ref_unit_symbol='pc', quantum=1)
    pc = S.ref_unit
    scales = {'tpc': Fraction(1, 3), 'hpc': Fraction(1, 2), 'spc': Fraction(3, 2), 'pr': Fraction(2), 'dz': Fraction(12)}
    units = {'pc': pc}
    for sym, sc in scales.items():
        units[sym] = S.new_unit(sym, None, Term(((sc, 1), (pc, 1))))
    scales['pc'] = Fraction(1)
    a, b = E.choice('pair', [(x, y) for x in units for y in units])
    for name, op in OPS:
        E.check(bool(op(units[a], units[b])) == bool(op(scales[a], scales[b])), 'user-unit-%s-by-scale' % name,
                key='unit-cmp-user:' + name, info=[a, b])
