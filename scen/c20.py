"""C20 -- predefined catalogue matches SI / international definitions and its docs."""
from __future__ import annotations

import json
import os
import re
from fractions import Fraction

from . import common as C

PROPERTY = 'C20'
BUDGET = {'quick': 120, 'thorough': 600}
LAST_CONFIG_INFO = {}
REF = json.load(open(os.path.join(os.path.dirname(os.path.dirname(os.path.abspath(__file__))),
                                  'ref', 'si_units.json'), encoding='utf-8'))

META = {
    'bounds': ['amount: unbounded rational (z3 Real); everything else is a finite table comparison walked '
               'exhaustively in both tiers: all units against ref/si_units.json, all 1310 ordered in-type '
               'pairs, compound units against the product of their components, the 20 SI prefixes, every '
               'row of the documentation tables'],
    'outside_bounds': ['free-text parts of the documentation (names are compared for a hand-typed subset only)'],
    'stubs': ['decimalfp.Decimal(x, precision) rounding contract (DataVolume constructor)'],
    'assumptions': ['ref/si_units.json was typed from the SI brochure / 1959 agreement / IEC 80000-13, not generated '
                    'from the repository; a unit missing from it is reported as uncovered, not as a violation'],
}
META['bounds'].append('after 5 kinds of user declarations (clashing symbols in other types / classes / currencies, further units, a further temperature converter): 8 catalogue symbols, temperature equivalents')
META['bounds'].append('unit quotients u/v, v/u, u/v for every in-type pair; an unregistered temperature-difference table')


def setup(mode):
    C.import_catalogue()


def _ref_scale(sym):
    for name, sec in REF.items():
        if isinstance(sec, dict) and 'units' in sec and sym in sec['units']:
            return Fraction(sec['units'][sym]), name
    return None, None


def jobs(tier, seed):
    out = []
    units = []
    pairs = []
    uncovered = []
    for cls in C.linear_classes():
        us = [u.symbol for u in cls.units()]
        for s in us:
            if _ref_scale(s)[0] is None:
                uncovered.append(s)
            else:
                units.append(s)
        for a in us:
            for b in us:
                if _ref_scale(a)[0] is not None and _ref_scale(b)[0] is not None:
                    pairs.append([a, b])
    for ch in C.chunks(units, 8):
        out.append({'fn': 'unit_scale', 'cfg': {'units': ch}})
    for i, ch in enumerate(C.chunks(pairs, 24)):
        out.append({'fn': 'pair_ratio', 'cfg': {'pairs': ch, 'flav': 'dec' if i % 2 else 'frac'}})
    out.append({'fn': 'compound', 'cfg': {'syms': sorted(REF['compound'])}})
    out.append({'fn': 'prefixes', 'cfg': {}})
    rows = _doc_rows()
    for ch in C.chunks(rows, 6):
        out.append({'fn': 'doc_rows', 'cfg': {'rows': ch}})
    out.append({'fn': 'doc_structure', 'cfg': {}})
    out.append({'fn': 'doc_temperature', 'cfg': {}})
    out.append({'fn': 'after_user_declarations', 'cfg': {}})
    out.append({'fn': 'unit_scale', 'cfg': {'units': ['mi'], 'canary': True}, 'canary': True})
    LAST_CONFIG_INFO.clear()
    LAST_CONFIG_INFO.update({'units': {'enumerated': len(units), 'total': len(units) + len(uncovered)},
                             'uncovered_units': uncovered, 'pairs': len(pairs), 'doc_rows': len(rows),
                             'prefixes': 20, 'exhaustive': True})
    return out


def unit_scale(E, cfg):
    from quantity import Quantity
    us = E.choice('unit', cfg['units'])
    u = C.unit(us)
    s, sec = _ref_scale(us)
    cls = u.qty_cls
    E.check(cls.__name__ == sec, 'unit-in-expected-type', info=[us, sec])
    E.check(cls.ref_unit.symbol == REF[sec]['ref'], 'reference-unit-symbol', info=[sec])
    a = E.rational('a', 'dec')
    q = Quantity(a, u)
    r = q.convert(cls.ref_unit)
    E.check(r.amount * 1 == q.amount * s, 'unit-scale-matches-reference-table', key='unit-scale:' + us, info=[us, str(s)])
    one = Quantity(1, u).convert(cls.ref_unit)
    if cls.quantum is None:
        E.check(one.amount == s, 'one-unit-in-reference-units', key='unit-scale-one:' + us)
    E.observe('in_ref', r.amount)
    if cfg.get('canary'):
        E.check(r.amount == q.amount * 1609, 'canary-mile-1609')


def pair_ratio(E, cfg):
    from quantity import Quantity
    us, vs = E.choice('pair', cfg['pairs'])
    u, v = C.unit(us), C.unit(vs)
    su, sv = _ref_scale(us)[0], _ref_scale(vs)[0]
    a = E.rational('a', cfg['flav'])
    q = Quantity(a, u)
    r = q.convert(v)
    E.check(r.amount == q.amount * su / sv, 'pair-ratio-of-reference-scales', key='pair-ratio', info=[us, vs])
    # the ratio as the quotient of the two units, in both directions and again (the quotient of two units of one
    # type is a plain number)
    for label, fn, exp in (('u/v', lambda: u / v, su / sv), ('v/u', lambda: v / u, sv / su), ('u/v-again', lambda: u / v, su / sv)):
        try:
            amnt, ru = fn()
        except Exception as e:
            E.fail('unit-quotient', key='pair-quotient:%s' % type(e).__name__, info=[us, vs, label])
            continue
        E.check(ru is None and amnt == exp, 'unit-quotient-is-ratio-of-reference-scales', key='pair-quotient', info=[us, vs, label])


def compound(E, cfg):
    from quantity import Quantity
    sym = E.choice('sym', cfg['syms'])
    u = C.unit(sym)
    a = E.rational('a', 'dec')
    prod = Fraction(1)
    for comp, exp in REF['compound'][sym]:
        try:
            cu = C.unit(comp)
        except ValueError:
            f = Fraction(comp)          # numeric component
        else:
            f = Quantity(1, cu).convert(cu.qty_cls.ref_unit).amount
            f = Fraction(f.numerator, f.denominator)
        prod *= f ** exp if exp >= 0 else 1 / f ** (-exp)
    r = Quantity(a, u).convert(u.qty_cls.ref_unit)
    E.check(r.amount == Quantity(a, u).amount * prod, 'compound-scale-is-product-of-components',
            key='compound:' + sym, info=[sym, str(prod)])
    s = _ref_scale(sym)[0]
    if s is not None:
        E.check(prod == s, 'compound-table-consistent', key='compound-table:' + sym)


def prefixes(E, cfg):
    from decimalfp import Decimal
    import quantity.si_prefixes as sp
    from quantity import Quantity
    import quantity.predefined as pre
    table = REF['si_prefixes']
    E.check(len(sp.SI_PREFIXES) == 20 and len(sp.SI_PREFIX_MAP) == 20, 'prefix-count')
    names = sorted(table)
    name = E.choice('prefix', names)
    abbr, exp = table[name]
    const = getattr(sp, name.upper(), None)
    E.check(const is not None, 'prefix-constant-exists', key='prefix-constant:' + name)
    if const is None:
        return
    E.check(const.name == name and const.abbr == abbr, 'prefix-name-abbr', key='prefix-name:' + name)
    E.check(const.exp == exp, 'prefix-exponent', key='prefix-exp:' + name)
    ten = Fraction(10) ** exp
    E.check(const.factor == ten, 'prefix-factor-is-power-of-ten', key='prefix-factor:' + name)
    E.check(sp.SI_PREFIX_MAP.get(Decimal(ten)) is const if exp >= 0 else
            any(v is const and k == ten for k, v in sp.SI_PREFIX_MAP.items()), 'prefix-map', key='prefix-map:' + name)
    E.check(const in sp.SI_PREFIXES, 'prefix-listed', key='prefix-listed:' + name)
    a = E.rational('a', 'dec')
    q = const * pre.METRE
    E.check(q.amount == ten and q.unit is pre.METRE, 'prefix-times-unit')
    r = (a * q).convert(pre.KILOMETRE)
    E.check(r.amount == a * ten / 1000, 'prefix-scaled-conversion', key='prefix-conv:' + name)


# --------------------------------------------------------------- documentation
def _doc():
    import quantity.predefined as pre
    return pre.__doc__


def _doc_sections():
    """class name -> text of its section"""
    doc = _doc()
    parts = re.split(r'\n([A-Za-z]+)\n\^+\n', doc)
    return {parts[i]: parts[i + 1] for i in range(1, len(parts) - 1, 2)}


def _doc_rows():
    rows = []
    for name, text in _doc_sections().items():
        if name == 'Temperature':
            continue
        m = re.search(r"Equivalent in '([^']+)'", text)
        if not m:
            continue
        refsym = m.group(1)
        for line in text.splitlines():
            if not line.strip() or line.startswith('=') or line.startswith('Symbol') \
                    or ':' in line.split(' ')[0] or line.startswith(('Reference', 'Predefined', 'Definition')):
                continue
            m2 = re.match(r'^(\S+)\s+(.+?)\s{2,}(\S+)\s+(\S+)\s*$', line)
            if m2:
                rows.append([name, refsym, m2.group(1), m2.group(2).strip(), m2.group(3), m2.group(4)])
    return rows


def doc_rows(E, cfg):
    from quantity import Quantity, Unit
    cname, refsym, sym, name, definition, equiv = E.choice('row', cfg['rows'])
    try:
        u = Unit(sym)
    except ValueError:
        E.fail('doc-symbol-registered', key='doc-row-unknown-symbol:' + sym)
        return
    E.check(u.qty_cls.__name__ == cname, 'doc-row-in-section-of-its-type', key='doc-row-type:' + sym)
    E.check(u.qty_cls.ref_unit is not None and u.qty_cls.ref_unit.symbol == refsym, 'doc-row-reference-unit',
            key='doc-row-ref:' + sym)
    try:
        eq = Fraction(equiv)
    except ValueError:
        E.fail('doc-equivalent-is-a-number', key='doc-row-equiv-unparsable:' + sym)
        return
    a = E.rational('a', 'dec')
    q = Quantity(a, u)
    r = q.convert(u.qty_cls.ref_unit)
    E.check(r.amount == q.amount * eq, 'doc-equivalent-equals-computed', key='doc-row-equiv:' + sym,
            info=[sym, equiv])
    # the definition column: '<number>·<symbol>' rows must be consistent with the equivalent column
    m = re.match(r'^(-?[0-9.]+(?:/[0-9]+)?)·(\S+)$', definition)
    if m:
        try:
            base = Unit(m.group(2))
        except ValueError:
            E.fail('doc-definition-base-unit-registered', key='doc-row-def-unknown-base:' + sym)
            return
        base_eq = Quantity(1, base).convert(base.qty_cls.ref_unit).amount if base.qty_cls.quantum is None \
            else C.scale(base)
        E.check(Fraction(m.group(1)) * Fraction(base_eq.numerator, base_eq.denominator) == eq,
                'doc-definition-consistent-with-equivalent', key='doc-row-def:' + sym, info=[sym, definition, equiv])


def doc_structure(E, cfg):
    """every predefined unit except reference units appears in exactly one table row; class definitions"""
    rows = _doc_rows()
    syms = [r[2] for r in rows]
    secs = _doc_sections()
    for cls in C.linear_classes():
        E.check(cls.__name__ in secs, 'doc-has-section', key='doc-section:' + cls.__name__)
        text = secs.get(cls.__name__, '')
        ref = cls.ref_unit
        m = re.search(r"Reference unit: (.+?) \('([^']+)'", text)
        E.check(bool(m) and m.group(2) == ref.symbol and m.group(1) == ref.name, 'doc-reference-unit-line',
                key='doc-refline:' + cls.__name__)
        if cls.is_derived_cls():
            m = re.search(r"Definition: (\S+)", text)
            E.check(bool(m) and m.group(1) == str(cls.definition), 'doc-class-definition',
                    key='doc-classdef:' + cls.__name__)
        for u in cls.units():
            if u is ref:
                continue
            E.check(syms.count(u.symbol) == 1, 'doc-lists-unit-once', key='doc-lists:' + u.symbol)
    E.check(len(syms) == len(set(syms)), 'doc-no-duplicate-rows')


def after_user_declarations(E, cfg):
    """the catalogue still agrees with the reference table after user declarations in the same process: attempts to
    reuse catalogue symbols in other types (whatever their outcome), further units, a further temperature converter"""
    from decimalfp import Decimal
    from quantity import Quantity, Unit, TableConverter
    import quantity.predefined as pre
    from quantity.money import Money
    step = E.choice('step', ['clash-unit-other-type', 'clash-type-ref-symbol', 'clash-currency', 'user-unit',
                             'extra-temperature-converter', 'unregistered-temperature-table', 'none'])
    watched = {'a': pre.ARE, 'B': pre.BYTE, 'l': pre.LITRE, 'm': pre.METRE, 'kg': pre.KILOGRAM, 'h': pre.HOUR,
               'K': pre.KELVIN, 'mi': pre.MILE}

    def attempt(fn):
        try:
            fn()
        except Exception:
            pass
    if step == 'clash-unit-other-type':
        attempt(lambda: pre.Duration.new_unit('a', 'Year', Decimal(31536000) * pre.SECOND))
        attempt(lambda: pre.Length.new_unit('l', 'League', Decimal(4828) * pre.METRE))
        attempt(lambda: pre.Mass.new_unit('h', 'Hectogram', Decimal(100) * pre.GRAM))
    elif step == 'clash-type-ref-symbol':
        attempt(lambda: C.mk_cls('Beauty', ref_unit_symbol='B'))
        attempt(lambda: C.mk_cls('Mileage', ref_unit_symbol='mi'))
    elif step == 'clash-currency':
        attempt(lambda: Money.new_unit('B', 'Baht'))
        attempt(lambda: Money.new_unit('K', 'Kina', minor_unit=2))
    elif step == 'user-unit':
        pre.Length.new_unit('smoot', 'Smoot', Decimal('1.7018') * pre.METRE)
        pre.Area.new_unit('dunam', 'Dunam', Decimal(1000) * pre.SQUARE_METRE)
    elif step == 'unregistered-temperature-table':
        # a converter for temperature differences is built (list and mapping form) but never registered
        rows = [(pre.CELSIUS, pre.KELVIN, 1, 0), (pre.CELSIUS, pre.FAHRENHEIT, Fraction(9, 5), 0),
                (pre.KELVIN, pre.FAHRENHEIT, Fraction(9, 5), 0)]
        TableConverter(rows)
        TableConverter({(r[0], r[1]): (r[2], r[3]) for r in rows})
    elif step == 'extra-temperature-converter':
        rankine = pre.Temperature.new_unit('°R', 'Rankine')
        pre.Temperature.register_converter(TableConverter([(pre.KELVIN, rankine, Fraction(9, 5), 0)]))
    a = E.rational('a', 'dec')
    for sym, const in sorted(watched.items()):
        try:
            u = Unit(sym)
        except Exception as e:
            E.fail('catalogue-symbol-still-known', key='after-user:symbol-unknown:' + sym, info=[step, type(e).__name__])
            continue
        E.check(u is const, 'catalogue-symbol-still-its-unit', key='after-user:symbol-taken-over', info=[step, sym])
        if sym == 'K':
            continue
        s_, sec = _ref_scale(sym)
        q = Quantity(a, const)
        r = q.convert(const.qty_cls.ref_unit)
        E.check(r.amount * 1 == q.amount * s_, 'catalogue-scale-after-user-declarations', key='after-user:scale', info=[step, sym])
        try:
            qs = Quantity('3 ' + sym)
        except Exception as e:
            E.fail('catalogue-symbol-parses', key='after-user:parse:' + type(e).__name__, info=[step, sym])
        else:
            E.check(qs.unit is const and type(qs) is const.qty_cls, 'catalogue-symbol-parses-to-its-type',
                    key='after-user:parse-type', info=[step, sym])
    # the documented temperature equivalents (0 °C = 32 °F = 273.15 K)
    for (x, u, y, v) in ((0, pre.CELSIUS, 32, pre.FAHRENHEIT), (0, pre.CELSIUS, Decimal('273.15'), pre.KELVIN),
                         (Decimal('273.15'), pre.KELVIN, 32, pre.FAHRENHEIT), (0, pre.KELVIN, Decimal('-459.67'), pre.FAHRENHEIT)):
        for (p_, pu, q_, qu) in ((x, u, y, v), (y, v, x, u)):
            try:
                got = Quantity(p_, pu).convert(qu).amount
            except Exception as e:
                E.fail('temperature-equivalents-after-user-declarations', key='after-user:temperature:' + type(e).__name__,
                       info=[step, pu.symbol, qu.symbol])
                continue
            E.check(got == q_, 'temperature-equivalents-after-user-declarations', key='after-user:temperature',
                    info=[step, pu.symbol, qu.symbol, str(got)])
    t = Quantity(a, pre.CELSIUS)
    E.check(t.convert(pre.KELVIN).amount == a + Fraction('273.15'), 'celsius-kelvin-after-user-declarations',
            key='after-user:temperature-formula', info=[step])


def doc_temperature(E, cfg):
    """the three 'Equivalents' rows of the temperature table against the converters"""
    from decimalfp import Decimal
    from quantity import Quantity, Unit
    text = _doc_sections().get('Temperature', '')
    rows = re.findall(r'^(°C|°F|K)\s+.+?\s{2,}(.+)$', text, re.M)
    E.check(len(rows) == 3, 'doc-temperature-rows')
    i = E.choice('row', [0, 1, 2])
    if i >= len(rows):
        return
    sym, eqs = rows[i]
    parts = re.split(r'\s*(=|≅)\s*', eqs.strip())
    vals = []
    rel = ['=']
    for p in parts:
        if p in ('=', '≅'):
            rel.append(p)
            continue
        m = re.match(r'^(-?[\d.,]+)\s+(°C|°F|K)$', p)
        E.check(bool(m), 'doc-temperature-parsable', key='doc-temp-parse:' + sym)
        if not m:
            return
        vals.append((Fraction(m.group(1).replace(',', '.')), m.group(2)))
    base_val, base_sym = vals[0]
    q = Quantity(Decimal(base_val), Unit(base_sym))
    for (v, s), r in zip(vals[1:], rel[1:]):
        got = q.convert(Unit(s)).amount
        if r == '=':
            E.check(got == v, 'doc-temperature-equivalent-exact', key='doc-temp:%s->%s' % (base_sym, s),
                    info=[eqs, str(got)])
        else:
            E.check(abs(got - v) <= Fraction(1, 2000), 'doc-temperature-equivalent-approx',
                    key='doc-temp-approx:%s->%s' % (base_sym, s), info=[eqs, str(got)])
