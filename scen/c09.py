"""C09 -- exchange rates: normal form, accuracy, inversion and triangulation."""
from __future__ import annotations

from fractions import Fraction

from . import common as C

PROPERTY = 'C09'
BUDGET = {'quick': 150, 'thorough': 900}
LAST_CONFIG_INFO = {}

UMS_VALID = ['1', '10', '100', '1000', '1000000', '2', '5', '7', '9', '25', '400']
UMS_INVALID = ['0', '-1', '1.5', '0.1', '-10']
MAG = (-8, 14)

META = {
    'bounds': ['term amount: symbolic rational, 10^-8 <= |t| < 10^15 (magnitude table; smaller / larger values cut '
               'and counted), given as decimal (Decimal.magnitude path) and as fraction / float / text '
               '(Fraction + math.log10 path, both float-rounding outcomes explored near powers of ten)',
               'unit multiple: concrete from {1, 10, 100, 1000, 10^6, 2, 5, 7, 9, 25, 400} as int / Decimal / '
               'Fraction / str, invalid {0, -1, 1.5, 0.1, -10}',
               'triangulation: one rate symbolic, the other concrete (linearity rule), all shared-currency layouts '
               'over 3 currencies; inversion: symbolic rate with unit multiple 1'],
    'outside_bounds': ['double inversion with a symbolic rate (product of two rounded symbolic values: undecided after minutes); it is checked for 15 concrete rates x 2 unit multiples instead', 'both rates symbolic in a product / quotient', 'division of a concrete rate by a symbolic one', 'term amounts outside the magnitude range',
                       'non-finite floats (concrete extra cases only)'],
    'stubs': ['Decimal.magnitude (finite table)', 'math.log10 on a rational: floor may be k or k+1 within a relative '
              '2^-44 band below 10^(k+1)', 'Decimal(x, 6) rounding contract', 'Decimal(fraction) representable or ValueError'],
    'assumptions': ['unit multiple is concrete on every path'],
}
META['bounds'].append('float term amounts whose shortest notation is a tie of the sixth decimal (7 values), floats below the limit')


def setup(mode):
    C.import_catalogue()
    import quantity.money  # noqa: F401


def jobs(tier, seed):
    out = []
    kinds = ['int', 'Decimal', 'Fraction', 'str', 'Decimal-trailing-zeros', 'str-trailing-zeros', 'Decimal-precision']
    i = 0
    for um in UMS_VALID:
        for fl in ('dec', 'frac'):
            out.append({'fn': 'ctor', 'cfg': {'um': um, 'um_kind': kinds[i % 7], 'flav': fl},
                        'opts': {'mag_range': MAG}})
            i += 1
    for um in UMS_INVALID + ['x', '']:
        out.append({'fn': 'ctor_invalid_um', 'cfg': {'um': um}})
    out.append({'fn': 'ctor_concrete', 'cfg': {}})
    out.append({'fn': 'inverted_twice', 'cfg': {}})
    for fl in ('dec', 'frac'):
        out.append({'fn': 'inverted', 'cfg': {'flav': fl}, 'opts': {'mag_range': MAG}})
    concretes = ['1.25', '0.0325', '163.27', '0.000123'] if tier == 'quick' else \
        ['1.25', '0.0325', '163.27', '0.000123', '1', '10', '0.1', '99999.5', '7.5']
    for c in concretes:
        for side in ('left', 'right'):
            for op in ('mul', 'div'):
                if side == 'right' and op == 'div':
                    continue     # concrete / symbolic rate: non-linear under rounding, minutes per job
                out.append({'fn': 'triangulate', 'cfg': {'concrete': c, 'sym_side': side, 'op': op,
                                                         'cum': '1' if c != '163.27' else '100'},
                            'opts': {'mag_range': MAG}})
    out.append({'fn': 'ctor', 'cfg': {'um': '1', 'um_kind': 'int', 'flav': 'dec', 'canary': True},
                'opts': {'mag_range': MAG}, 'canary': True})
    LAST_CONFIG_INFO.clear()
    LAST_CONFIG_INFO.update({'unit_multiples': len(UMS_VALID), 'invalid_multiples': len(UMS_INVALID) + 2,
                             'triangulation_jobs': len(concretes) * 4, 'exhaustive': False})
    return out


def _curs():
    from quantity.money import Money
    return [Money.register_currency(c) for c in ('EUR', 'USD', 'JPY')]


def _um(val, kind):
    from decimalfp import Decimal
    if kind == 'int':
        return int(val)
    if kind == 'Decimal':
        return Decimal(val)
    if kind == 'Fraction':
        return Fraction(val)
    if kind == 'Decimal-trailing-zeros':
        return Decimal(val + ('.00' if '.' not in val else '0'))
    if kind == 'str-trailing-zeros':
        return val + '.000'
    if kind == 'Decimal-precision':
        return Decimal(int(val), 2)
    return val


def _is_pow10(x):
    f = Fraction(x)
    if f < 1 or f.denominator != 1:
        return False
    n = f.numerator
    while n % 10 == 0:
        n //= 10
    return n == 1


def _normal_form(E, r, exact_rate, prefix, info, um_class=''):
    """obligations on a constructed rate; exact_rate = true rate (term per 1 unit)"""
    mult = r._unit_multiple
    amt = r._term_amount
    E.check(_is_pow10(mult), prefix + '-multiple-is-power-of-ten', key=prefix + ':multiple-power-of-ten', info=info)
    E.check(amt > 0, prefix + '-amount-positive', key=prefix + ':amount-positive', info=info)
    E.check(E.is_int(amt * 10 ** 6), prefix + '-amount-six-digits', key=prefix + ':amount-six-digits', info=info)
    E.check(amt >= Fraction(1, 10), prefix + '-amount-magnitude-ge-minus-1', key=prefix + ':amount-magnitude' + um_class, info=info)
    d = amt - exact_rate * Fraction(mult)
    h = Fraction(5, 10 ** 7)
    E.check(E.And(d <= h, -h <= d), prefix + '-accuracy-half-unit-sixth-decimal', key=prefix + ':accuracy', info=info)
    E.check(r.rate * r.inverse_rate == 1, prefix + '-rate-times-inverse-is-one', key=prefix + ':rate-inverse', info=info)
    E.check(r.rate == amt / Fraction(mult), prefix + '-rate-is-amount-per-multiple', key=prefix + ':rate-def', info=info)


def ctor(E, cfg):
    from quantity.money import ExchangeRate
    eur, usd, jpy = _curs()
    t = E.rational('t', cfg['flav'])
    um = _um(cfg['um'], cfg['um_kind'])
    umf = Fraction(cfg['um'])
    info = [cfg['um'], cfg['um_kind'], cfg['flav']]
    try:
        r = ExchangeRate(eur, um, usd, t)
    except ValueError:
        # rejected: must be non-positive or too small
        E.check(t < Fraction(1, 10 ** 6), 'rejected-only-when-too-small', key='ctor:valid-input-rejected', info=info)
        return
    E.check(t >= Fraction(1, 10 ** 6), 'too-small-amount-rejected', key='ctor:too-small-accepted', info=info)
    E.check(r.unit_currency is eur and r.term_currency is usd, 'ctor-currencies')
    _normal_form(E, r, t / umf, 'ctor', info,
                 um_class=':given-multiple-is-power-of-ten' if _is_pow10(umf) else ':given-multiple-not-power-of-ten')
    q = r.quotation
    E.check(q[0] is eur and q[1] is usd and q[2] == r.rate, 'quotation')
    iq = r.inverse_quotation
    E.check(iq[0] is usd and iq[1] is eur and iq[2] == r.inverse_rate, 'inverse-quotation')
    E.observe('amount', r._term_amount)
    E.observe('multiple', r._unit_multiple)
    if cfg.get('canary'):
        E.check(r._term_amount == t, 'canary-amount-unrounded')


def ctor_invalid_um(E, cfg):
    from decimalfp import Decimal
    from quantity.money import ExchangeRate
    eur, usd, jpy = _curs()
    t = E.rational('t', 'dec')
    E.assume(t >= 1)
    kinds = ['str']
    if cfg['um'] not in ('x', ''):
        kinds = ['int' if Fraction(cfg['um']).denominator == 1 else 'Fraction', 'Decimal', 'Fraction', 'str']
    kind = E.choice('kind', kinds)
    um = _um(cfg['um'], kind)
    C.expect_raises(E, lambda: ExchangeRate(eur, um, usd, t), ValueError, 'invalid-unit-multiple-rejected',
                    [cfg['um'], kind])


def ctor_concrete(E, cfg):
    """concrete ground cases: identical currencies, string / float amounts, codes instead of objects"""
    from decimalfp import Decimal
    from quantity.money import ExchangeRate
    eur, usd, jpy = _curs()
    cases = ['identical', 'identical-code', 'unknown-code', 'wrong-type', 'zero', 'negative', 'tiny', 'str',
             'float', 'str-bad', 'limit', 'below-limit', 'inf', 'nan', 'codes', 'float-ties', 'float-below-limit']
    case = E.choice('case', cases)
    if case == 'identical':
        C.expect_raises(E, lambda: ExchangeRate(eur, 1, eur, 1), ValueError, 'identical-currencies-rejected')
    elif case == 'identical-code':
        C.expect_raises(E, lambda: ExchangeRate('EUR', 1, eur, 2), ValueError, 'identical-currencies-rejected')
    elif case == 'unknown-code':
        C.expect_raises(E, lambda: ExchangeRate('QQQ', 1, eur, 2), ValueError, 'unknown-code-rejected')
    elif case == 'wrong-type':
        C.expect_raises(E, lambda: ExchangeRate(5, 1, eur, 2), TypeError, 'wrong-type-currency-rejected')
    elif case == 'zero':
        C.expect_raises(E, lambda: ExchangeRate(eur, 1, usd, 0), ValueError, 'zero-amount-rejected')
    elif case == 'negative':
        C.expect_raises(E, lambda: ExchangeRate(eur, 1, usd, Decimal('-1.5')), ValueError, 'negative-amount-rejected')
    elif case == 'tiny':
        C.expect_raises(E, lambda: ExchangeRate(eur, 1, usd, '0.0000009'), ValueError, 'tiny-amount-rejected')
    elif case == 'str-bad':
        C.expect_raises(E, lambda: ExchangeRate(eur, 1, usd, 'abc'), ValueError, 'bad-text-rejected')
    elif case == 'inf':
        C.expect_raises(E, lambda: ExchangeRate(eur, 1, usd, float('inf')), ValueError, 'inf-rejected')
    elif case == 'nan':
        C.expect_raises(E, lambda: ExchangeRate(eur, 1, usd, float('nan')), ValueError, 'nan-rejected')
    elif case == 'str':
        r = ExchangeRate(eur, 1, usd, '0.9683')
        _normal_form(E, r, Fraction('0.9683'), 'ctor-str', ['str'])
    elif case == 'float':
        r = ExchangeRate(eur, 10, usd, 12.5)
        _normal_form(E, r, Fraction(125, 100), 'ctor-float', ['float'])
    elif case == 'limit':
        r = ExchangeRate(eur, 1, usd, Decimal('0.000001'))
        _normal_form(E, r, Fraction(1, 10 ** 6), 'ctor-limit', ['limit'])
    elif case == 'below-limit':
        C.expect_raises(E, lambda: ExchangeRate(eur, 1, usd, Fraction(999999, 10 ** 12)), ValueError,
                        'below-limit-rejected')
    elif case == 'float-ties':
        # floats count with their exact binary value: the shortest decimal notation is a tie of the sixth decimal, the value
        # itself lies beside it
        from .c11 import _own_rate
        f = E.choice('float', [1.0000015, 2.0000025, 1.0000005, 0.1000005, 16.3270005, 0.30000049999999997, 7.0000035])
        r = ExchangeRate(eur, 1, usd, f)
        E.check(r.rate == _own_rate(Fraction(f)), 'float-amount-by-exact-binary-value', key='ctor-float:exact-value',
                info=[repr(f), str(r.rate)])
        _normal_form(E, r, Fraction(f), 'ctor-float', ['float-ties'])
    elif case == 'float-below-limit':
        for f in (1e-6, 9.999999e-7):                 # the float 1e-6 is below 10^-6
            if Fraction(f) < Fraction(1, 10 ** 6):
                C.expect_raises(E, lambda: ExchangeRate(eur, 1, usd, f), ValueError, 'float-below-limit-rejected', [repr(f)])
    elif case == 'codes':
        r = ExchangeRate('EUR', '100', 'JPY', '16327')
        E.check(r.unit_currency is eur and r.term_currency is jpy, 'codes-resolved')
        _normal_form(E, r, Fraction('163.27'), 'ctor-codes', ['codes'])


def inverted(E, cfg):
    from quantity.money import ExchangeRate
    eur, usd, jpy = _curs()
    t = E.rational('t', cfg['flav'])
    E.assume(E.And(t >= Fraction(1, 10 ** 3), t <= 10 ** 6))
    r = ExchangeRate(eur, 1, usd, t)
    try:
        inv = r.inverted()
    except ValueError:
        E.check(r.inverse_rate < Fraction(1, 10 ** 6), 'inverted-rejected-only-when-too-small',
                key='inverted:valid-rejected')
        return
    E.check(inv.unit_currency is usd and inv.term_currency is eur, 'inverted-swaps-currencies',
            key='inverted:currencies')
    _normal_form(E, inv, r.inverse_rate, 'inverted', [cfg['flav']])
    E.observe('inv', inv._term_amount)


TWICE = ['123456.654321', '1.234567', '0.333333', '3', '0.75', '7.5', '999.999999', '0.001001', '1', '64', '0.142857',
         '98765.4321', '2.000001', '0.5', '1000000']


def inverted_twice(E, cfg):
    """inverting the inverse: again a normalised rate, accurate with respect to the rate it was computed from (the
    rounded inverse, not the original), whatever was computed from the same objects before.  Concrete rates from a
    list: with a symbolic rate the obligation multiplies two rounded symbolic values (undecided after minutes)."""
    from decimalfp import Decimal
    from quantity.money import ExchangeRate
    eur, usd, jpy = _curs()
    ts = E.choice('t', TWICE)
    um = E.choice('um', [1, 100])
    r = ExchangeRate(eur, um, usd, Decimal(ts))
    inv = r.inverted()
    r.inverted()                                  # (a second request in between)
    h = Fraction(5, 10 ** 7)
    for k, x in enumerate((inv.inverted(), inv.inverted(), inv.inverted().inverted().inverted())):
        E.check(x.unit_currency is eur and x.term_currency is usd, 'twice-inverted-currencies', key='inverted-twice:currencies')
        amt, mult = Fraction(x._term_amount), Fraction(x._unit_multiple)
        src = inv if k < 2 else inv.inverted().inverted()
        exact = mult / Fraction(src.rate)
        E.check(abs(amt - exact) <= h, 'twice-inverted-accuracy', key='inverted-twice:accuracy', info=[ts, um, k, str(amt), str(exact)])
        E.check((amt * 10 ** 6).denominator == 1 and amt >= Fraction(1, 10), 'twice-inverted-normal-form',
                key='inverted-twice:normal-form', info=[ts, um, k])
    a, b = inv.inverted(), inv.inverted()
    E.check(a._term_amount == b._term_amount and a._unit_multiple == b._unit_multiple and a == b, 'twice-inverted-repeatable',
            key='inverted-twice:repeat', info=[ts, um])


def triangulate(E, cfg):
    from decimalfp import Decimal
    from quantity.money import ExchangeRate
    eur, usd, jpy = _curs()
    t = E.rational('t', 'dec')
    E.assume(E.And(t >= Fraction(1, 10 ** 4), t <= 10 ** 7))
    layouts = [(a, b, c, d) for a in range(3) for b in range(3) if a != b
               for c in range(3) for d in range(3) if c != d]
    a, b, c, d = E.choice('layout', layouts)
    cur = [eur, usd, jpy]
    conc = Decimal(cfg['concrete'])
    cum = int(cfg['cum'])
    if cfg['sym_side'] == 'left':
        r1 = ExchangeRate(cur[a], 1, cur[b], t)
        r2 = ExchangeRate(cur[c], cum, cur[d], conc)
    else:
        r1 = ExchangeRate(cur[a], cum, cur[b], conc)
        r2 = ExchangeRate(cur[c], 1, cur[d], t)
    info = [a, b, c, d, cfg['op'], cfg['sym_side']]
    if cfg['op'] == 'mul':
        # documented: r1.unit == r2.term -> r2.unit -> r1.term ; r1.term == r2.unit -> r1.unit -> r2.term
        if a == d:
            exp = (cur[c], cur[b])
        elif b == c:
            exp = (cur[a], cur[d])
        else:
            exp = None
        value = r1.rate * r2.rate
        fn = lambda: r1 * r2
    else:
        # documented: same unit currency -> r2.term -> r1.term ; same term currency -> r1.unit -> r2.unit
        if a == c:
            exp = (cur[d], cur[b])
        elif b == d:
            exp = (cur[a], cur[c])
        else:
            exp = None
        value = r1.rate / r2.rate
        fn = lambda: r1 / r2
    if exp is not None and exp[0] is exp[1]:
        exp = 'identical'
    try:
        res = fn()
    except ValueError:
        if exp is None or exp == 'identical':
            E.ok('triangulation-rejected-without-shared-currency')
        else:
            E.check(value < Fraction(1, 10 ** 6), 'triangulation-rejected-only-when-too-small',
                    key='triangulate:valid-rejected', info=info)
        return
    if exp is None or exp == 'identical':
        E.fail('triangulation-rejected-without-shared-currency', key='triangulate:no-shared-currency-accepted', info=info)
        return
    E.check(res.unit_currency is exp[0] and res.term_currency is exp[1], 'triangulation-direction',
            key='triangulate:direction', info=info)
    _normal_form(E, res, value, 'triangulate', info)
    E.observe('res', res._term_amount)
