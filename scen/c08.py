"""C08 -- money never mixes currencies implicitly and follows ISO 4217."""
from __future__ import annotations

import operator
from fractions import Fraction

from . import common as C

PROPERTY = 'C08'
BUDGET = {'quick': 150, 'thorough': 900}
LAST_CONFIG_INFO = {}

META = {
    'bounds': ['amounts: unbounded rationals; minor unit of user currencies: symbolic integer 0..6',
               'ISO table: all 167 entries (registration, idempotence, name, smallest fraction, rounding of '
               'amounts) in both tiers; ordered pairs of distinct currencies: quick 300 seeded covering every '
               'minor-unit class, thorough all 27722',
               'user currencies: smallest fraction from {10^-k, 0.05, 0.25, 0.5, 0.2} and invalid {0, -0.01, 0.3, '
               '1, 2, "x"} with and without (matching / non-matching) minor unit'],
    'outside_bounds': ['behaviour while a money converter is active (C11, C12); that none stays active after its block or after removal is checked here on 6 pairs'],
    'stubs': ['decimalfp.Decimal(x, precision) rounding contract'],
    'assumptions': ['ISO oracle: own regex parse of iso_4217.xml (code, name, minor units)'],
}


def setup(mode):
    C.import_catalogue()
    import quantity.money  # noqa: F401


def jobs(tier, seed):
    rng = C.rng_for(seed, 'c08')
    table = C.iso_table()
    codes = sorted(table)
    out = []
    for ch in C.chunks(codes, 12):
        out.append({'fn': 'iso_entry', 'cfg': {'codes': ch}})
    by_minor = {}
    for c in codes:
        by_minor.setdefault(table[c][1], []).append(c)
    pairs = []
    for m1 in by_minor:
        for m2 in by_minor:
            for _ in range(3):
                a, b = rng.choice(by_minor[m1]), rng.choice(by_minor[m2])
                if a != b:
                    pairs.append([a, b])
    # distinct currencies that share their name (SLL / SLE, VES / VED): always included
    for a in codes:
        for b in codes:
            if a != b and table[a][0] == table[b][0]:
                pairs.append([a, b])
    allpairs = [[a, b] for a in codes for b in codes if a != b]
    if tier == 'quick':
        pairs += C.sample(rng, allpairs, 300 - len(pairs))
    else:
        pairs = allpairs
    for i, ch in enumerate(C.chunks(pairs, 16 if tier == 'quick' else 64)):
        out.append({'fn': 'mix', 'cfg': {'pairs': ch, 'fa': 'dec' if i % 2 else 'frac'}})
    out.append({'fn': 'mix', 'cfg': {'pairs': pairs[:4] + [['EUR', 'USD'], ['USD', 'JPY']], 'fa': 'dec', 'pre': True}})
    out.append({'fn': 'unknown_codes', 'cfg': {}})
    out.append({'fn': 'user_currency', 'cfg': {}})
    out.append({'fn': 'user_currency_sym_minor', 'cfg': {}})
    out.append({'fn': 'mix', 'cfg': {'pairs': [['EUR', 'USD']], 'fa': 'dec', 'canary': True}, 'canary': True})
    LAST_CONFIG_INFO.clear()
    LAST_CONFIG_INFO.update({'iso_entries': {'enumerated': len(codes), 'total': len(codes)},
                             'currency_pairs': {'enumerated': len(pairs), 'total': len(allpairs)},
                             'exhaustive': tier == 'thorough'})
    return out


def iso_entry(E, cfg):
    from quantity import Unit
    from quantity.money import Currency, Money
    code = E.choice('code', cfg['codes'])
    name, minor = C.iso_table()[code]
    E.check(len(list(Money.registered_converters())) == 0, 'no-converter-active')
    cur = Money.register_currency(code)
    again = Money.register_currency(code)
    E.check(again is cur, 'registration-idempotent', key='iso-idempotent', info=code)
    E.check(isinstance(cur, Currency) and cur.qty_cls is Money, 'is-currency-of-money')
    E.check(Unit(code) is cur and Money.get_unit_by_symbol(code) is cur and code in Money, 'registered-under-code',
            key='iso-registered', info=code)
    E.check(cur.iso_code == code and cur.symbol == code, 'iso-code', key='iso-code', info=code)
    E.check(cur.name == name, 'iso-name', key='iso-name', info=[code, name, cur.name])
    sf = Fraction(1, 10 ** minor)
    E.check(cur.smallest_fraction == sf, 'iso-smallest-fraction', key='iso-smallest-fraction', info=[code, minor])
    E.check(cur.quantum == sf, 'iso-quantum', key='iso-quantum', info=[code, minor])
    a = E.rational('a', 'dec')
    m = Money(a, cur)
    from decimalfp import get_dflt_rounding_mode
    E.check(m.currency is cur and m.unit is cur, 'money-currency')
    E.check(E.is_rounding(get_dflt_rounding_mode(), m.amount / sf, a / sf), 'amount-rounded-to-smallest-fraction',
            key='iso-amount-rounded', info=code)
    b = E.rational('b', 'frac')
    mb = Money(b, cur)
    s = m + mb
    E.check(s.unit is cur and type(s) is Money, 'same-currency-sum-stays')
    E.check(E.Iff(m < mb, m.amount < mb.amount), 'same-currency-order')
    n = len(Money.units())
    Money.register_currency(code)
    E.check(len(Money.units()) == n, 'idempotent-no-extra-unit', key='iso-idempotent-units', info=code)


def mix(E, cfg):
    from quantity import UndefinedResultError, UnitConversionError, IncompatibleUnitsError
    from quantity.money import Money
    c1, c2 = E.choice('pair', cfg['pairs'])
    cu1, cu2 = Money.register_currency(c1), Money.register_currency(c2)
    E.check(cu1 is not cu2, 'distinct-currencies')
    if cfg.get('pre'):
        # a converter was active earlier and is not any more: the block was left (normally, by an exception of
        # the caller, by an exception of the library), or it was registered and removed
        from decimalfp import Decimal
        from quantity.money import MoneyConverter
        pre = E.choice('pre', ['with-normal', 'with-exception', 'with-library-exception', 'register-remove',
                               'nested-inner-exception'])
        conv = MoneyConverter(cu1)
        conv.update(None, [(cu2, Decimal('1.25'), 1)])
        third = Money.register_currency('ISK' if 'ISK' not in (c1, c2) else 'CHF')
        probe = Money(3, cu1)

        class Boom(Exception):
            pass
        if pre == 'with-normal':
            with conv:
                E.check(probe.convert(cu2).unit is cu2, 'converter-active-inside-block')
        elif pre == 'with-exception':
            try:
                with conv:
                    raise Boom()
            except Boom:
                pass
        elif pre == 'with-library-exception':
            try:
                with conv:
                    probe.convert(third)
            except UnitConversionError:
                pass
            else:
                E.fail('unknown-pair-inside-block-raises', key='pre:unknown-pair-converted')
        elif pre == 'register-remove':
            Money.register_converter(conv)
            Money.remove_converter(conv)
        else:
            with conv:
                try:
                    with conv:
                        raise Boom()
                except Boom:
                    pass
    E.check(len(list(Money.registered_converters())) == 0, 'no-converter-active')
    a = E.rational('a', cfg['fa'])
    b = E.rational('b', 'dec')
    m1, m2 = Money(a, cu1), Money(b, cu2)
    info = [c1, c2]
    not_cls = IncompatibleUnitsError
    C.expect_raises(E, lambda: m1 + m2, UnitConversionError, 'mixed-add-raises', info, not_cls)
    C.expect_raises(E, lambda: m1 - m2, UnitConversionError, 'mixed-sub-raises', info, not_cls)
    C.expect_raises(E, lambda: m1 / m2, UnitConversionError, 'mixed-div-raises', info, not_cls)
    for name, op in (('lt', operator.lt), ('le', operator.le), ('gt', operator.gt), ('ge', operator.ge)):
        C.expect_raises(E, lambda: op(m1, m2), UnitConversionError, 'mixed-%s-raises' % name, info, not_cls)
    C.expect_raises(E, lambda: m1.convert(cu2), UnitConversionError, 'mixed-convert-raises', info, not_cls)
    C.expect_raises(E, lambda: m1 / cu2, UnitConversionError, 'mixed-div-by-currency-raises', info, not_cls)
    E.check(E.Not(m1 == m2), 'mixed-eq-false', info=info)
    E.check(m1 != m2, 'mixed-ne-true', info=info)
    C.expect_raises(E, lambda: m1 * m2, UndefinedResultError, 'money-times-money-undefined', info)
    C.expect_raises(E, lambda: cu1 * cu2, UndefinedResultError, 'currency-times-currency-undefined', info)
    C.expect_raises(E, lambda: m1 ** 2, UndefinedResultError, 'money-squared-undefined', info)
    E.check(E.Not(cu1 == cu2), 'currencies-unequal')
    # controls within one currency
    m3 = Money(b, cu1)
    s = m1 + m3
    E.check(s.unit is cu1 and type(s) is Money, 'same-currency-add-stays')
    d = m1 - m3
    E.check(d.unit is cu1, 'same-currency-sub-stays')
    E.check(m1.convert(cu1).amount == m1.amount, 'same-currency-convert-identity')
    E.check(E.Iff(m1 == m3, m1.amount == m3.amount), 'same-currency-eq')
    if cfg.get('canary'):
        try:
            r = m1 + m2
        except UnitConversionError:
            E.fail('canary-mixed-add-must-succeed', key='canary-mixed-add')


def unknown_codes(E, cfg):
    from quantity import Unit
    from quantity.money import Money
    codes = ['XXX', 'XTS', 'XAU', 'eur', 'Eur', '', 'EURO', 'ZZZ', 'US', 'usd', ' EUR', 'EUR ', 'ÄÖÜ', '123']
    code = E.choice('code', codes)
    n = len(Money.units())
    C.expect_raises(E, lambda: Money.register_currency(code), ValueError, 'unknown-code-rejected', [code])
    E.check(len(Money.units()) == n, 'unknown-code-no-unit-added', key='unknown-code:unit-added', info=code)
    E.check(code not in Money, 'unknown-code-not-in-money', key='unknown-code:in-money', info=code)
    try:
        Unit(code)
    except ValueError:
        E.ok('unknown-code-symbol-unknown')
    else:
        E.fail('unknown-code-symbol-unknown', key='unknown-code:symbol-registered', info=code)


def user_currency(E, cfg):
    from decimalfp import Decimal, get_dflt_rounding_mode
    from quantity import Unit
    from quantity.money import Currency, Money
    valid = [('f:0.05', None, '0.05'), ('f:0.25', None, Decimal('0.25')), ('f:0.5', None, Fraction(1, 2)),
             ('f:0.5float', None, 0.5), ('f:0.001', None, '0.001'), ('f:0.1', None, Decimal('0.1')),
             ('m:0', 0, None), ('m:3', 3, None), ('m:2,f:0.05', 2, '0.05'), ('m:1,f:0.5', 1, Decimal('0.5')),
             ('default', None, None), ('m:2,f:0.01', 2, '0.01')]
    invalid = [('f:0', None, 0, ValueError), ('f:-0.01', None, '-0.01', ValueError), ('f:0.3', None, '0.3', ValueError),
               ('f:1', None, 1, ValueError), ('f:2', None, 2, ValueError), ('f:x', None, 'x', ValueError),
               ('m:-1', -1, None, ValueError), ('m:1.5', 1.5, None, TypeError), ('m:"2"', '2', None, TypeError),
               ('m:3,f:0.05', 3, '0.05', ValueError), ('m:0,f:0.5', 0, '0.5', ValueError),
               ('f:0.03', None, '0.03', ValueError), ('f:0.2float', None, 0.2, ValueError)]
    cases = [('valid',) + v for v in valid] + [('invalid',) + v for v in invalid]
    case = E.choice('case', cases)
    a = E.rational('a', 'dec')
    n = len(Money.units())
    if case[0] == 'valid':
        _, label, minor, sf = case
        kw = {}
        if minor is not None:
            kw['minor_unit'] = minor
        if sf is not None:
            kw['smallest_fraction'] = sf
        cur = Money.new_unit('QQX', 'Test currency', **kw)
        exp_sf = Fraction(str(sf)) if sf is not None and not isinstance(sf, (float, Fraction)) else \
            (Fraction(sf) if isinstance(sf, float) else (sf if sf is not None else
                                                           Fraction(1, 10 ** (minor if minor is not None else 2))))
        E.check(isinstance(cur, Currency) and Unit('QQX') is cur, 'user-currency-registered', info=label)
        E.check(cur.smallest_fraction == exp_sf and cur.quantum == exp_sf, 'user-smallest-fraction',
                key='user-currency:smallest-fraction', info=label)
        m = Money(a, cur)
        E.check(E.is_rounding(get_dflt_rounding_mode(), m.amount / exp_sf, a / exp_sf), 'user-amount-rounded',
                key='user-currency:amount-rounded', info=label)
        C.expect_raises(E, lambda: Money.new_unit('QQX', 'again'), ValueError, 'user-duplicate-symbol-rejected')
    else:
        _, label, minor, sf, exc = case
        kw = {}
        if minor is not None:
            kw['minor_unit'] = minor
        if sf is not None:
            kw['smallest_fraction'] = sf
        C.expect_raises(E, lambda: Money.new_unit('QQY', 'Bad currency', **kw), exc, 'invalid-currency-rejected',
                        [label])
        E.check(len(Money.units()) == n and 'QQY' not in Money, 'invalid-currency-not-registered',
                key='invalid-currency:registered', info=label)


def user_currency_sym_minor(E, cfg):
    from decimalfp import get_dflt_rounding_mode
    from quantity.money import Money
    k = E.integer('k', 0, 6)
    a = E.rational('a', 'dec')
    cur = Money.new_unit('QQZ', 'sym minor', minor_unit=k)
    kk = E.value_of(k)
    sf = Fraction(1, 10 ** kk)
    E.check(cur.smallest_fraction == sf, 'sym-minor-smallest-fraction', key='sym-minor:smallest-fraction')
    m = Money(a, cur)
    E.check(E.is_rounding(get_dflt_rounding_mode(), m.amount / sf, a / sf), 'sym-minor-amount-rounded',
            key='sym-minor:amount-rounded')
