"""C15 -- directory coherence: unique symbols, own type, definitions mean what they say."""
from __future__ import annotations

from . import common as C
from . import decl as D

PROPERTY = 'C15'
BUDGET = {'quick': 200, 'thorough': 1500}
LAST_CONFIG_INFO = {}

META = {
    'bounds': ['declaration programs on top of the predefined catalogue: for each of the 20 valid step templates (base / '
               'derived / quantized / reference-less types; scaled, chained, derive_unit_from (explicit and generated '
               'symbol), term-defined (2, 3 and 5 items, numeric element, zero exponent), plain units; non-ASCII and '
               'blank-containing symbols) its prerequisites are declared, then the step, then every available further '
               'step (quick: two more, thorough: three more), i.e. all orders of up to 3 / 4 free steps',
               'each of the 21 invalid step templates after its prerequisites: expected exception class',
               'amount in every directory query: unbounded rational (string factory through a marker token)'],
    'outside_bounds': ['programs with more than 4 free steps', 'symbolic symbols', 'declarations from an empty catalogue '
                       '(the predefined module is always imported)', 'symbolic scale factors (C01 has them)'],
    'stubs': ['text produced from a symbolic amount is a marker token mapped back by the wrapped Decimal / Fraction '
              'constructors', 'Decimal(x, precision) rounding contract (quantized type)'],
    'assumptions': ['ledger: the harness records every declaration it makes together with the scale its definition '
                    'denotes, computed from the declared factors only'],
}
META['bounds'].append('types with equal / long common names in both declaration orders (3 name pairs)')
META['bounds'].append('colliding-names program: quotient, unit quotient and term-defined unit attempted before the quotient type exists')


def setup(mode):
    C.import_catalogue()


def jobs(tier, seed):
    out = []
    for i, v in enumerate(D.VALID):
        out.append({'fn': 'program', 'cfg': {'target': i, 'extra': 2 if tier == 'quick' else 3}})
    for ch in C.chunks([i for i, v in enumerate(D.INVALID) if v[2] != 'Optional'], 7):
        out.append({'fn': 'rejected', 'cfg': {'steps': ch}})
    out.append({'fn': 'colliding_names', 'cfg': {}})
    out.append({'fn': 'program', 'cfg': {'target': D.VALID_INDEX['unit-a1'], 'extra': 0, 'canary': True}, 'canary': True})
    LAST_CONFIG_INFO.clear()
    LAST_CONFIG_INFO.update({'valid_templates': len(D.VALID), 'invalid_templates': len(D.INVALID),
                             'free_steps': 3 if tier == 'quick' else 4, 'exhaustive': True})
    return out


def _apply_valid(E, L, idx):
    name, req, fn = D.VALID[idx]
    try:
        fn(L)
    except Exception as e:
        E.fail('valid-declaration-accepted', key='decl:valid-rejected:%s:%s' % (name, type(e).__name__), info=L.log)
        return False
    L.log.append(name)
    return True


def _available(L):
    out = []
    for i, (name, req, fn) in enumerate(D.VALID):
        nm = D.produced_names(name)
        if nm in L.classes or nm in L.units:
            continue
        if D.requires_met(L, req):
            out.append(i)
    return out


def program(E, cfg):
    L = D.Ledger()
    a = E.rational('a', 'dec')
    name, req, fn = D.VALID[cfg['target']]
    D.ensure(L, set(req))
    if not _apply_valid(E, L, cfg['target']):
        return
    for k in range(cfg['extra']):
        av = _available(L)
        if not av:
            break
        nxt = E.choice('step%d' % k, av + [None])
        if nxt is None:
            break
        if not _apply_valid(E, L, nxt):
            return
    D.check_directory(E, L, a, 'after-program')
    E.observe('log', L.log)
    if cfg.get('canary'):
        from quantity import Quantity
        u = L.units['a1'][0]
        E.check(Quantity(a, u).convert(L.units['a0'][0]).amount == a * 2, 'canary-wrong-scale')


def rejected(E, cfg):
    L = D.Ledger()
    a = E.rational('a', 'dec')
    idx = E.choice('invalid', cfg['steps'])
    name, req, exc, fn, syms = D.INVALID[idx]
    D.ensure(L, set(req))
    exc_cls = {'ValueError': ValueError, 'TypeError': TypeError, 'AssertionError': AssertionError}[exc]
    C.expect_raises(E, lambda: fn(L), exc_cls, 'invalid-declaration-rejected:' + name, [name])
    from quantity import Unit
    for sym in syms:
        if sym == '':
            continue
        try:
            Unit(sym)
        except ValueError:
            E.ok('rejected-declaration-symbol-unknown')
        else:
            E.fail('rejected-declaration-symbol-unknown', key='rejected:symbol-registered:' + name, info=[name, sym])
    D.check_directory(E, L, a, 'after-rejection')


def colliding_names(E, cfg):
    """types whose names are equal / share a long prefix are still distinct types: a second type for the same
    dimension is rejected whatever the order of its factors, and term-defined units are accepted in either order"""
    from quantity import Quantity
    from quantity.term import Term
    n1, n2 = E.choice('names', [('QuantityTypeWithAVeryLongCommonNameA', 'QuantityTypeWithAVeryLongCommonNameB'),
                                ('Same', 'Same'), ('XA', 'XB')])
    order = E.choice('order', ['ab', 'ba'])
    A = C.mk_cls(n1, ref_unit_symbol='ca0')
    B = C.mk_cls(n2, ref_unit_symbol='cb0')
    if order == 'ba':
        A, B = B, A
    a0, b0 = A.ref_unit, B.ref_unit
    ka = A.new_unit('cka', None, 1000 * a0)
    # before the quotient type exists: the operation is undefined and a term-defined unit is rejected ...
    from quantity import UndefinedResultError
    C.expect_raises(E, lambda: Quantity(1, ka) / Quantity(2, b0), UndefinedResultError, 'quotient-undefined-before-declaration')
    C.expect_raises(E, lambda: a0 / b0, UndefinedResultError, 'unit-quotient-undefined-before-declaration')
    C.expect_raises(E, lambda: A.new_unit('cbad', None, Term(((ka, 1), (b0, -1)))), ValueError, 'term-of-undeclared-dimension-rejected')
    # ... and all of it works once the type is declared
    AB = C.mk_cls('CQuot', define_as=A / B)
    E.check(AB.ref_unit is not None and C.scale(AB.ref_unit) == 1, 'derived-reference-unit', key='colliding:ref-unit')
    C.expect_raises(E, lambda: C.mk_cls('CQuot2', define_as=B ** -1 * A, ref_unit_symbol='cq2'), ValueError,
                    'second-type-for-dimension-rejected-other-factor-order', [n1, n2, order])
    C.expect_raises(E, lambda: C.mk_cls('CQuot3', define_as=Term(((B, -1), (A, 1)))), ValueError,
                    'second-type-for-dimension-rejected-term', [n1, n2, order])
    x = E.rational('x', 'dec')
    for i, items in enumerate((((ka, 1), (b0, -1)), ((b0, -1), (ka, 1)))):
        sym = 'cu%d' % i
        try:
            u = AB.new_unit(sym, None, Term(items))
        except Exception as e:
            E.fail('term-defined-unit-accepted-in-either-order', key='colliding:unit-rejected:%s' % type(e).__name__,
                   info=[n1, n2, order, i])
            continue
        E.check(u.qty_cls is AB and Quantity(x, u).convert(AB.ref_unit).amount == x * 1000,
                'term-defined-unit-scale', key='colliding:unit-scale', info=[n1, n2, order, i])
    r = Quantity(x, ka) / Quantity(2, b0)
    E.check(type(r) is AB and r.amount * C.scale(r.unit) == x * 500, 'quotient-type-and-value', key='colliding:quotient',
            info=[n1, n2, order])
