"""C07 -- term algebra is an exact commutative group with a canonical form."""
from __future__ import annotations

from fractions import Fraction
from numbers import Rational

from . import common as C

PROPERTY = 'C07'
BUDGET = {'quick': 200, 'thorough': 400}
GLOBAL_BUDGET = {'quick': 420, 'thorough': 1500}
LAST_CONFIG_INFO = {}

META = {
    'bounds': ['numeric elements: two symbolic non-zero rationals (decimal and fraction flavour) plus concrete int / Decimal / '
               'Fraction elements; exponents concrete from -3..3 (incl. 0)',
               'elements: own minimal base elements (distinct sort keys), own derived elements with nested definitions, real '
               'units incl. mutually convertible ones (m, km, mm; s, h), derived units (N, J, kWh, km/h) and quantity classes',
               'term shapes: hand-picked set + seeded random shapes of length <= 3 (quick) / 4 (thorough); all binary laws on '
               'seeded pairs (quick 150, thorough 1500), scalar laws with symbolic and int / Decimal / Fraction scalars'],
    'outside_bounds': ['symbolic exponents', 'terms longer than 4 items', 'str() of terms'],
    'stubs': ['hash recording (C19 device) for "equal terms hash equal"'],
    'assumptions': ['denotation oracle: own recursive expansion into (rational factor, exponent vector over base elements)'],
}
META['bounds'].append('user units scaled by plain ints / Decimal / Fraction (10 shapes, 34 pairs); derived units of a reference-less type (9 shapes x 4 partners; value-level obligations only, see known finding term:same-sort-key-order)')


def setup(mode):
    C.import_catalogue()
    import quantity.money  # noqa: F401


# ---------------------------------------------------------------- own elements
class TElem:
    """minimal non-numeric term element (NonNumTermElem protocol)"""

    def __init__(self, name, key, definition=None):
        self.name, self.key, self._def = name, key, definition

    def is_base_elem(self):
        return self._def is None

    @property
    def definition(self):
        from quantity.term import Term
        return self._def if self._def is not None else Term(((self, 1),))

    @property
    def normalized_definition(self):
        return self.definition.normalized() if self._def is not None else self.definition

    def norm_sort_key(self):
        return self.key

    def _get_factor(self, other):
        raise TypeError

    def __repr__(self):
        return self.name


_POOL = None


def pool():
    """name -> element; built once per process"""
    global _POOL
    if _POOL is None:
        import quantity.predefined as pre
        from decimalfp import Decimal
        from quantity.money import Money
        from quantity.term import Term
        A, B, Cc = TElem('A', 10), TElem('B', 20), TElem('C', 30)
        D = TElem('D', 40, Term(((3, 1), (A, 1), (B, -2))))
        DD = TElem('DD', 50, Term(((D, 2), (A, -1), (Decimal('0.5'), 1))))
        B2 = TElem('B2', 20)                 # same sort key as B, not convertible
        _POOL = {'A': A, 'B': B, 'C': Cc, 'D': D, 'DD': DD, 'B2': B2,
                 'm': pre.METRE, 'km': pre.KILOMETRE, 'mm': pre.MILLIMETRE, 's': pre.SECOND, 'h': pre.HOUR,
                 'N': pre.NEWTON, 'J': pre.JOULE, 'kWh': pre.KILOWATT_HOUR, 'km/h': pre.KILOMETRE_PER_HOUR,
                 'kg': pre.KILOGRAM, 'lb': pre.POUND, 'EUR': Money.register_currency('EUR'),
                 'USD': Money.register_currency('USD'), 'K': pre.KELVIN, '°C': pre.CELSIUS}
        # user units: scaled by a plain int inside a term / int * unit / Fraction; derived units of a type without
        # reference unit (price per mass in two currencies)
        T, uu = C.user_linear_type('TLen', 't0')
        for sym, (u, sc) in uu.items():
            _POOL[sym] = u
        PPM = C.mk_cls('TPricePerMass', define_as=Money / pre.Mass)
        _POOL['EUR/kg'] = PPM.derive_unit_from(_POOL['EUR'], pre.KILOGRAM)
        _POOL['USD/kg'] = PPM.derive_unit_from(_POOL['USD'], pre.KILOGRAM)
        _POOL['EUR/lb'] = PPM.derive_unit_from(_POOL['EUR'], pre.POUND)
    return _POOL


NUMS = ['x', 'y', 'i2', 'i3', 'd0.5', 'f2/3', 'd1', 'i-4']
SAFE_ELEMS = ['A', 'B', 'C', 'D', 'DD', 'm', 'km', 'mm', 's', 'h', 'N', 'J', 'kWh', 'km/h', 'kg', 'lb']


def _num(E, token, env):
    from decimalfp import Decimal
    if token in ('x', 'y'):
        return env[token]
    if token.startswith('i'):
        return int(token[1:])
    if token.startswith('d'):
        return Decimal(token[1:])
    return Fraction(token[1:])


def _items(E, shape, env):
    out = []
    for tok, exp in shape:
        if tok in pool():
            out.append((pool()[tok], exp))
        else:
            out.append((_num(E, tok, env), exp))
    return out


# ---------------------------------------------------------------------- oracle
def _exact(v):
    if type(v).__name__ in ('SymDec', 'SymFrac', 'SymInt'):
        return v
    return Fraction(v)


def _powq(f, e):
    if e == 0:
        return Fraction(1)
    if e > 0:
        return f ** e
    return 1 / (f ** (-e))


def denote(items):
    """(rational factor, {base element: exponent}) by own expansion"""
    factor = Fraction(1)
    vec = {}
    for elem, exp in items:
        if isinstance(elem, Rational):
            factor = factor * _powq(_exact(elem), exp)
            continue
        f, v = _denote_elem(elem)
        factor = factor * _powq(f, exp)
        for k, e in v.items():
            vec[k] = vec.get(k, 0) + e * exp
    return factor, {k: e for k, e in vec.items() if e != 0}


def _denote_elem(e):
    if isinstance(e, TElem):
        if e._def is None:
            return Fraction(1), {e: 1}
        return denote(e._def.items)
    d = getattr(e, '_definition', None)
    if d is None or len(d) == 0:
        return Fraction(1), {e: 1}
    return denote(d.items)


def same(E, d1, d2):
    """formula: two denotations are equal"""
    if d1[1] != d2[1]:
        return False
    return d1[0] == d2[0]


def _no_float(E, items, label, info):
    from decimalfp import Decimal
    ok = True
    for elem, exp in items:
        if isinstance(elem, float) or (isinstance(elem, Rational) and not isinstance(elem, (int, Decimal, Fraction))):
            ok = False
        if isinstance(elem, (float, complex)) or isinstance(exp, float):
            ok = False
    E.check(ok, label, key='term:float-introduced', info=info)


def _is_num(e):
    return isinstance(e, Rational)


def _check_normal_form(E, t, d, info):
    n = t.normalized()
    E.check(n.normalized() is n, 'normalisation-idempotent', key='term:normalize-not-idempotent', info=info)
    E.check(t.normalized() is n, 'normal-form-cached', key='term:normalize-unstable', info=info)
    _no_float(E, n.items, 'normal-form-no-float', info)
    E.check(same(E, denote(n.items), d), 'normalisation-preserves-value', key='term:normalize-changes-value', info=info)
    items = n.items
    nums = [i for i, (e, x) in enumerate(items) if _is_num(e)]
    E.check(len(nums) <= 1 and (not nums or nums[0] == 0), 'at-most-one-numeric-item-in-front',
            key='term:normal-form-numeric-position', info=info)
    if nums:
        E.check(items[0][1] == 1, 'numeric-item-has-exponent-one', key='term:normal-form-numeric-exponent', info=info)
        E.check(items[0][0] != 1, 'numeric-item-is-not-one', key='term:normal-form-numeric-one', info=info)
    rest = [(e, x) for e, x in items if not _is_num(e)]
    E.check(all(e.is_base_elem() for e, x in rest), 'normal-form-has-base-elements-only', key='term:normal-form-derived-element',
            info=info)
    E.check(all(x != 0 for e, x in rest), 'normal-form-no-zero-exponent', key='term:normal-form-zero-exponent', info=info)
    E.check(len({id(e) for e, x in rest}) == len(rest), 'normal-form-each-element-once', key='term:normal-form-duplicate',
            info=info)
    keys = [e.norm_sort_key() for e, x in rest]
    E.check(keys == sorted(keys), 'normal-form-sorted', key='term:normal-form-order', info=info)
    # num_elem / split consistent with the denotation
    ne = n.num_elem
    E.check((ne is None and not nums) or (ne is not None and E.exact(ne) == d[0]) or (ne is None and d[0] == 1),
            'num-elem-is-the-factor', key='term:num-elem', info=info)
    num, tail = n.split()
    E.check(same(E, (E.exact(num) * denote(tail.items)[0], denote(tail.items)[1]), d), 'split-consistent', key='term:split',
            info=info)
    E.check(all(not _is_num(e) for e, x in tail.items), 'split-tail-has-no-number', key='term:split-tail', info=info)


def _env(E):
    x = E.rational('x', 'dec')
    y = E.rational('y', 'frac')
    E.assume(E.And(x != 0, y != 0))
    return {'x': x, 'y': y}


def single(E, cfg):
    from quantity.term import Term
    shape = E.choice('shape', cfg['shapes'])
    env = _env(E)
    items = _items(E, shape, env)
    d = denote(items)
    info = [repr(shape)]
    t = Term(items)
    _no_float(E, t.items, 'construction-no-float', info)
    E.check(same(E, denote(t.items), d), 'construction-preserves-value', key='term:construct-changes-value', info=info)
    _check_normal_form(E, t, d, info)
    r = t.reciprocal()
    dr = (1 / d[0], {k: -e for k, e in d[1].items()})
    E.check(same(E, denote(r.items), dr), 'reciprocal', key='term:reciprocal', info=info)
    _check_normal_form(E, r, dr, info + ['reciprocal'])
    E.check(r == Term([(e, -x) for e, x in items]) and r == t ** -1, 'reciprocal-equals-negated-exponents',
            key='term:reciprocal-eq', info=info)
    E.check(r.reciprocal() == t, 'reciprocal-involutive', key='term:reciprocal-involutive', info=info)
    high = any(tok in ('x', 'y') and abs(e) > 1 for tok, e in shape)
    for n in cfg.get('powers', (-1, 0, 2) if high else (-2, 0, 1, 3)):
        p = t ** n
        _no_float(E, p.items, 'power-no-float', info + [n])
        E.check(same(E, denote(p.items), (_powq(d[0], n), {k: e * n for k, e in d[1].items() if e * n})), 'power',
                key='term:power', info=info + [n])
        E.check(p == Term(((t_e, t_x * n) for t_e, t_x in items)) if True else True, 'power-equals-itemwise', key='term:power-eq',
                info=info + [n])
    E.check(t == t and t == Term(list(reversed(items))), 'equal-to-reordered-self', key='term:eq-reordered', info=info)
    E.check(E.hash_equal(E.hash_of(t), E.hash_of(Term(list(reversed(items))))), 'hash-equal-to-reordered-self',
            key='term:hash-reordered', info=info)
    E.observe('factor', E.exact(t.normalized().num_elem) if t.normalized().num_elem is not None else 1)
    if cfg.get('canary'):
        E.check(same(E, denote(t.items), (d[0] + 1, d[1])), 'canary-factor-off-by-one')


def noref_units(E, cfg):
    """terms over derived units of a type without reference unit: value-level obligations only"""
    from quantity.term import Term
    s1 = E.choice('shape', cfg['shapes'])
    s2 = E.choice('second', cfg['shapes'][:4])
    env = _env(E)
    i1, i2 = _items(E, s1, env), _items(E, s2, env)
    d1, d2 = denote(i1), denote(i2)
    info = [repr(s1), repr(s2)]
    t1, t2 = Term(i1), Term(i2)
    E.check(same(E, denote(t1.items), d1), 'construction-preserves-value', key='term:noref-construct', info=info)
    E.check(same(E, denote(t1.normalized().items), d1), 'normalisation-preserves-value', key='term:noref-normalize', info=info)
    E.check(same(E, denote(Term(i1, reduce_items=False).normalized().items), d1), 'unreduced-normalisation-preserves-value',
            key='term:noref-normalize-unreduced', info=info)
    E.check(same(E, denote(t1.reciprocal().items), (1 / d1[0], {k: -e for k, e in d1[1].items()})), 'reciprocal',
            key='term:noref-reciprocal', info=info)
    E.check(same(E, denote((t1 * t2).items), (d1[0] * d2[0], _vadd(d1[1], d2[1], 1))), 'product-homomorphic',
            key='term:noref-product', info=info)
    E.check(same(E, denote((t1 / t2).items), (d1[0] / d2[0], _vadd(d1[1], d2[1], -1))), 'quotient-homomorphic',
            key='term:noref-quotient', info=info)
    E.check(same(E, denote((t1 ** 2).items), (d1[0] * d1[0], {k: 2 * e for k, e in d1[1].items()})), 'power',
            key='term:noref-power', info=info)
    E.check(t1 == Term(i1), 'equal-to-same-construction', key='term:noref-eq-self', info=info)
    _no_float(E, (t1 * t2).normalized().items, 'noref-no-float', info)


def pair(E, cfg):
    from quantity.term import Term
    s1, s2 = E.choice('pair', cfg['pairs'])
    env = _env(E)
    i1, i2 = _items(E, s1, env), _items(E, s2, env)
    d1, d2 = denote(i1), denote(i2)
    info = [repr(s1), repr(s2)]
    t1, t2 = Term(i1), Term(i2)
    eq = (t1 == t2)
    E.check(E.Iff(eq, same(E, d1, d2)), 'equal-exactly-when-same-denotation', key='term:eq-vs-denotation', info=info)
    E.check(E.Iff(t2 == t1, eq), 'eq-symmetric', key='term:eq-asymmetric', info=info)
    # (a bare Python int kept as the only item of a normal form is hashed by C code and cannot be recorded;
    # such pairs are compared by hash in concrete runs only)
    bare_int = any(type(e) is int for t in (t1, t2) for e, _ in t.normalized().items)
    if not (bare_int and E.mode == 'sym'):
        E.check(E.Implies(eq, E.hash_equal(E.hash_of(t1), E.hash_of(t2))), 'equal-terms-hash-equal', key='term:hash', info=info)
    else:
        E.ok('equal-terms-hash-equal', key='term:hash')
    prod = t1 * t2
    _no_float(E, prod.items, 'product-no-float', info)
    dp = (d1[0] * d2[0], _vadd(d1[1], d2[1], 1))
    E.check(same(E, denote(prod.items), dp), 'product', key='term:product', info=info)
    E.check(prod == t2 * t1, 'product-commutative', key='term:product-commutative', info=info)
    deg = sum(abs(e) for sh in (s1, s2) for tok, e in sh if tok in ('x', 'y'))
    quot = t1 / t2
    _no_float(E, quot.items, 'quotient-no-float', info)
    dq = (d1[0] / d2[0], _vadd(d1[1], d2[1], -1))
    E.check(same(E, denote(quot.items), dq), 'quotient', key='term:quotient', info=info)
    E.check(quot * t2 == t1, 'quotient-times-divisor', key='term:quotient-inverse', info=info)
    E.check(t1 * t2.reciprocal() == quot, 'quotient-is-product-with-reciprocal', key='term:quotient-reciprocal', info=info)
    E.check((t1 / t1) == Term(()) or same(E, denote((t1 / t1).items), (Fraction(1), {})), 'self-quotient-is-identity',
            key='term:self-quotient', info=info)
    _check_normal_form(E, prod, dp, info + ['product'])
    if cfg.get('triples') and deg <= 4:
        s3 = cfg['third']
        t3 = Term(_items(E, s3, env))
        E.check((t1 * t2) * t3 == t1 * (t2 * t3), 'product-associative', key='term:product-associative', info=info + [repr(s3)])


def _vadd(v1, v2, sign):
    out = dict(v1)
    for k, e in v2.items():
        out[k] = out.get(k, 0) + sign * e
    return {k: e for k, e in out.items() if e != 0}


def scalars(E, cfg):
    from decimalfp import Decimal
    from quantity.term import Term
    shape = E.choice('shape', cfg['shapes'])
    env = _env(E)
    items = _items(E, shape, env)
    d = denote(items)
    t = Term(items)
    kname, k = E.choice('k', [('sym', E.rational('k', 'dec')), ('int3', 3), ('int-7', -7), ('dec', Decimal('2.5')),
                              ('frac', Fraction(3, 7)), ('one', 1)])
    if kname == 'sym':
        E.assume(k != 0)
    ke = E.exact(k) if kname == 'sym' else Fraction(k)
    info = [repr(shape), kname]
    for label, fn, exp in (('k*t', lambda: k * t, (d[0] * ke, d[1])), ('t*k', lambda: t * k, (d[0] * ke, d[1])),
                           ('t/k', lambda: t / k, (d[0] / ke, d[1])),
                           ('k/t', lambda: k / t, (ke / d[0], {kk: -e for kk, e in d[1].items()}))):
        r = fn()
        _no_float(E, r.items, 'scalar-no-float', info + [label])
        E.check(same(E, denote(r.items), exp), 'scalar-operation', key='term:scalar:' + label, info=info)
        _no_float(E, r.normalized().items, 'scalar-normal-form-no-float', info + [label])
        E.check(same(E, denote(r.normalized().items), exp), 'scalar-operation-normal-form', key='term:scalar-normalized:' + label,
                info=info)


def same_key(E, cfg):
    """elements of one sort key that are not inter-convertible (currencies, temperature units, own B / B2)"""
    from quantity.term import Term
    env = _env(E)
    a, b, c = E.choice('elems', [('EUR', 'USD', 'kg'), ('K', '°C', 'm'), ('B', 'B2', 'A')])
    p = pool()
    t1 = Term(((p[a], 1), (p[b], -1)))
    t2 = Term(((p[b], -1), (p[a], 1)))
    E.check(t1 == t2, 'equal-whatever-the-item-order', key='term:same-sort-key-order', info=[a, b])
    E.check(E.hash_equal(E.hash_of(t1), E.hash_of(t2)), 'hash-equal-whatever-the-item-order', key='term:same-sort-key-order',
            info=[a, b])
    t5 = Term(((p[a], 1), (p[b], 1), (p[b], -1)))
    E.check(t5 == Term(((p[a], 1),)), 'repeated-element-merged-whatever-its-position', key='term:same-sort-key-merge',
            info=[a, b])
    t6 = Term(((p[b], 1), (p[a], 1), (p[b], -1)))
    E.check(t6 == Term(((p[a], 1),)), 'repeated-element-merged-whatever-its-position-2', key='term:same-sort-key-merge',
            info=[b, a])
    E.check(len(t5.normalized().items) == 1 and len(t6.normalized().items) == 1, 'normal-form-each-element-once-same-key',
            key='term:same-sort-key-merge', info=[a, b])
    t3 = Term(((p[a], 1), (p[b], 1), (p[c], 1)))
    t4 = Term(((p[c], 1), (p[b], 1), (p[a], 1)))
    E.check(t3 == t4, 'equal-whatever-the-item-order-3', key='term:same-sort-key-order', info=[a, b, c])


HAND_SHAPES = [
    [('x', 1), ('A', 1)], [('A', 1), ('x', 1)], [('A', 2), ('B', -1)], [('B', -1), ('A', 2)],
    [('x', 1), ('km', 1)], [('km', 1), ('m', 1)], [('m', 1), ('km', -1)], [('km', 2), ('m', -2), ('mm', 1)],
    [('s', -1), ('m', 1), ('km', 2)], [('x', 2), ('y', -1), ('N', 1)], [('D', 1)], [('DD', 1), ('A', 1)], [('D', -1), ('B', -2)],
    [('km/h', 1), ('h', 1)], [('kWh', 1), ('J', -1)], [('x', 1)], [('x', -1)], [('x', 2)], [('i2', 1)], [('i2', -1)],
    [('d0.5', 1)], [('i2', 1), ('i3', -1)], [('i3', -1), ('A', 1), ('B', 1)], [('A', 1), ('B', 1), ('i3', -1)],
    [('f2/3', 2), ('m', 1)], [('A', 0), ('x', 1)], [('A', 1), ('A', -1)], [('m', 1), ('m', -1), ('x', 1), ('x', -1)],
    [('d1', 1), ('A', 1)], [('i-4', 1), ('i-4', -1), ('B', 1)], [('x', 1), ('y', 1), ('kg', 1), ('lb', -1)], [],
    [('N', 1), ('kg', -1), ('m', -1), ('s', 2)], [('km', 3)], [('A', 3), ('D', -1), ('DD', 1)], [('i2', 3), ('d0.5', 3), ('A', 1)],
]


USER_SHAPES = [
    [('ui3', 1)], [('ui3', 1), ('ui7', -1)], [('ui3', 1), ('ui7', 1)], [('ui7', 2), ('ui3', -1), ('t0', 1)],
    [('ui3', 1), ('um3', -1)], [('uc', 1), ('ui7', -1)], [('uf', 1), ('ud', 1), ('ui3', -2)], [('x', 1), ('ui7', 1), ('ui3', -1)],
    [('ui3', -1)], [('ui7', 1), ('s', -1), ('ui3', 1)],
]
# two units of one reference-less type in a term: not inter-convertible and of one sort key, so the order-sensitive
# obligations (known finding term:same-sort-key-order) are left out for them; values are checked
NOREF_SHAPES = [
    [('EUR/kg', 1)], [('EUR/kg', 1), ('USD/kg', -1)], [('EUR/kg', 1), ('USD/kg', 1)], [('EUR/kg', 1), ('kg', 1)],
    [('USD/kg', 1), ('lb', 1)], [('EUR/kg', 1), ('EUR/lb', -1)], [('x', 1), ('USD/kg', -1), ('EUR/kg', 2)],
    [('USD/kg', 2), ('EUR/kg', -2)], [('EUR/lb', 1), ('USD/kg', -1), ('y', 1)],
]
USER_PAIRS = [
    [[['ui3', 1]], [['i3', 1], ['t0', 1]]], [[['ui3', 1], ['ui7', -1]], [['i3', 1], ['i7', -1]]],
    [[['ui3', 1], ['ui7', 1]], [['i21', 1], ['t0', 2]]], [[['ui3', 1]], [['um3', 1]]], [[['uc', 1]], [['i84', 1], ['t0', 1]]],
]


def _rand_shape(rng, maxlen):
    n = rng.randint(1, maxlen)
    out = []
    for _ in range(n):
        if rng.random() < 0.3:
            tok = rng.choice(NUMS)
            # symbolic factors stay at degree <= 2 (higher powers give irrational roots in branch conditions:
            # minutes per query); concrete numbers may have any exponent
            out.append((tok, rng.choice([1, -1, 1, -1] if tok in ('x', 'y') else [1, -1, 2, -2, 1, 3])))
        else:
            out.append((rng.choice(SAFE_ELEMS), rng.choice([1, -1, 2, -2, 1, 3, -3, 0])))
    return out


def jobs(tier, seed):
    rng = C.rng_for(seed, 'c07')
    maxlen = 3 if tier == 'quick' else 4
    shapes = [list(map(list, s)) for s in HAND_SHAPES]
    shapes += [list(map(list, _rand_shape(rng, maxlen))) for _ in range(60 if tier == 'quick' else 300)]
    out = []
    for ch in C.chunks(shapes, 16):
        out.append({'fn': 'single', 'cfg': {'shapes': ch}})
    npairs = 150 if tier == 'quick' else 600
    pairs = [[rng.choice(shapes), rng.choice(shapes)] for _ in range(npairs)]
    # pairs that are equal by construction in different spellings
    pairs += [[[['x', 1], ['km', 1]], [['y', 1], ['m', 1]]], [[['N', 1]], [['kg', 1], ['m', 1], ['s', -2]]],
              [[['km/h', 1]], [['f2/3', 1], ['m', 1], ['s', -1]]], [[['A', 1], ['B', 1]], [['B', 1], ['A', 1]]],
              [[['i2', -1]], [['d0.5', 1]]], [[['D', 1]], [['i3', 1], ['A', 1], ['B', -2]]], [[['x', 1], ['A', 1]], [['A', 1], ['y', 1]]]]
    for i, ch in enumerate(C.chunks(pairs, 16)):
        lowdeg = [sh for sh in shapes if sum(abs(e) for tok, e in sh if tok in ('x', 'y')) <= 1 and sh]
        out.append({'fn': 'pair', 'cfg': {'pairs': ch, 'triples': True, 'third': rng.choice(lowdeg)}})
    for ch in C.chunks(shapes[:48] if tier == 'quick' else shapes[:200], 8):
        out.append({'fn': 'scalars', 'cfg': {'shapes': ch}})
    out.append({'fn': 'same_key', 'cfg': {}})
    ushapes = [list(map(list, sh)) for sh in USER_SHAPES]
    out.append({'fn': 'single', 'cfg': {'shapes': ushapes}})
    out.append({'fn': 'scalars', 'cfg': {'shapes': ushapes}})
    out.append({'fn': 'pair', 'cfg': {'pairs': USER_PAIRS + [[a, b] for a in ushapes[:10] for b in ushapes[:3]] +
                                      [],
                                      'triples': True, 'third': [['x', 1], ['ui3', 1]]}})
    out.append({'fn': 'noref_units', 'cfg': {'shapes': [list(map(list, sh)) for sh in NOREF_SHAPES]}})
    out.append({'fn': 'single', 'cfg': {'shapes': [[['x', 1], ['km', 1]]], 'canary': True}, 'canary': True})
    LAST_CONFIG_INFO.clear()
    LAST_CONFIG_INFO.update({'shapes': len(shapes), 'pairs': len(pairs), 'max_items': maxlen, 'exhaustive': False})
    return out
