"""C02 -- products, quotients and powers respect dimensions and scales."""
from __future__ import annotations

from fractions import Fraction

from . import common as C

PROPERTY = 'C02'
BUDGET = {'quick': 200, 'thorough': 1500}
LAST_CONFIG_INFO = {}

META = {
    'bounds': [
        'two amounts: unbounded rationals (products of two symbolic reals, no rounding on the path; '
        'for the quantized result type DataVolume the value obligation is the C05 relation with one '
        'operand concrete)',
        'unit pairs: quick = one representative unit per ordered type pair (196) + 1200 seeded of the '
        '12769 ordered pairs; thorough = all 12769; operators * and / in the operand kinds qty.qty, '
        'qty.unit, unit.qty, unit.unit; scalars on either side; powers n in -3..3 of every unit',
        'user catalogue built in the path: type without reference unit (price per mass) with declared '
        'and missing units, derived types, dimension cancelling across types',
    ],
    'outside_bounds': ['|n| > 3', 'division of two units of one type without reference unit (temperature): '
                       'only the absence of a non-QuantityError is asserted'],
    'stubs': ['decimalfp.Decimal(x, precision) rounding contract (DataVolume results)'],
    'assumptions': ['dimension oracle: own expansion of class definitions into exponent vectors',
                    'scale oracle: own walk of unit.definition'],
}
META['bounds'].append("user program 'rejected': a duplicate type / unit declaration is rejected, then 6 products / quotients; scalars: inexact floats 0.1, 0.3, 0.7 on decimal and fraction amounts")
META['bounds'].append('every unit paired with itself (113 pairs): same-unit quotients also in reference-less types')
META['bounds'].append("user program 'same_prefix': two types with equal / long common names, product type declared in either factor order, 7 operations")


def setup(mode):
    C.import_catalogue()


def _all_units():
    us = []
    for cls in C.all_classes():
        us.extend(cls.units())
    return us


def jobs(tier, seed):
    rng = C.rng_for(seed, 'c02')
    units = [u.symbol for u in _all_units()]
    classes = C.all_classes()
    allpairs = [[a, b] for a in units for b in units]
    if tier == 'quick':
        pairs = []
        for c1 in classes:
            for c2 in classes:
                pairs.append([rng.choice(c1.units()).symbol, rng.choice(c2.units()).symbol])
        pairs += C.sample(rng, allpairs, 1200)
        pairs += [[x, x] for x in units]              # every unit with itself
    else:
        pairs = allpairs
    out = []
    for i, ch in enumerate(C.chunks(pairs, 32 if tier == 'quick' else 96)):
        out.append({'fn': 'pair_ops', 'cfg': {'pairs': ch, 'fa': 'dec' if i % 2 else 'frac',
                                              'fb': 'frac' if (i // 2) % 2 else 'dec'}})
    for ch in C.chunks(units, 8):
        out.append({'fn': 'powers', 'cfg': {'units': ch}})
        out.append({'fn': 'scalars', 'cfg': {'units': ch}})
        out.append({'fn': 'scalars', 'cfg': {'units': ch, 'fa': 'frac'}})
    for prog in range(len(USER_PROGS)):
        out.append({'fn': 'user_prog', 'cfg': {'prog': prog}})
    out.append({'fn': 'pair_ops', 'cfg': {'pairs': [['N', 'km']], 'fa': 'dec', 'fb': 'frac', 'canary': True},
                'canary': True})
    LAST_CONFIG_INFO.clear()
    LAST_CONFIG_INFO.update({'unit_pairs': {'enumerated': len(pairs), 'total': len(allpairs)},
                             'units_for_powers': len(units), 'user_programs': len(USER_PROGS),
                             'exhaustive': tier == 'thorough'})
    return out


# ------------------------------------------------------------------ oracle
def _class_for(vec):
    """the declared class with exactly this dimension vector (None if none)"""
    from quantity import QuantityMeta
    hits = []
    for cls in _declared_classes():
        if C.dim_vector(cls) == vec:
            hits.append(cls)
    return hits[0] if hits else None


def _declared_classes():
    """the registered quantity classes (class registry of the library, flattened)"""
    from quantity import Quantity, QuantityMeta
    return [c for bucket in QuantityMeta._registry._item_list for c in bucket if c is not Quantity]


def _combine(v1, v2, sign):
    vec = dict(v1)
    for k, e in v2.items():
        vec[k] = vec.get(k, 0) + sign * e
    return {k: e for k, e in vec.items() if e != 0}


def _check_result(E, label, fn, exp_vec, exact_ref, info, quantized_skip=True):
    """run fn(); compare outcome with the oracle: class with exp_vec (or number / undefined)."""
    from quantity import Quantity, UndefinedResultError
    exp_cls = _class_for(exp_vec) if exp_vec else None
    try:
        r = fn()
    except UndefinedResultError:
        if exp_vec and exp_cls is None:
            E.ok(label + '-undefined')
        else:
            E.fail(label + '-undefined', key='%s:UndefinedResultError-although-%s' % (
                label, 'dimensionless' if not exp_vec else 'type-declared'), info=info)
        return None
    except Exception as e:
        E.fail(label, key='%s:%s%s' % (label, type(e).__name__,
                                       '-when-dimensions-cancel' if not exp_vec else ''), info=info)
        return None
    if isinstance(r, tuple):                       # unit x unit -> (factor, unit or None)
        amnt, ru = r
        if not exp_vec:
            E.check(ru is None, label + '-cancels-to-number', key=label + ':unit-although-cancelled', info=info)
            E.check(amnt == exact_ref, label + '-value', key=label + ':value', info=info)
            return r
        if exp_cls is None:
            E.fail(label + '-undefined', key='%s:value-although-undefined' % label, info=info)
            return r
        E.check(ru is not None and ru.qty_cls is exp_cls, label + '-class', key=label + ':class', info=info)
        if ru is not None:
            E.check(amnt * C.scale(ru) == exact_ref, label + '-value', key=label + ':value', info=info)
        return r
    if not exp_vec:
        E.check(not isinstance(r, Quantity), label + '-cancels-to-number',
                key=label + ':quantity-although-cancelled', info=info)
        if not isinstance(r, Quantity):
            E.check(r == exact_ref, label + '-value', key=label + ':value', info=info)
        return r
    if exp_cls is None:
        E.fail(label + '-undefined', key='%s:value-although-undefined' % label, info=info + [repr(type(r))])
        return r
    E.check(type(r) is exp_cls, label + '-class', key=label + ':class', info=info)
    if isinstance(r, Quantity):
        if exp_cls.quantum is None:
            E.check(r.amount * C.scale(r.unit) == exact_ref, label + '-value', key=label + ':value', info=info)
        else:
            q = Fraction(exp_cls.quantum) / C.scale(r.unit)
            E.check(E.is_int(r.amount / q), label + '-on-grid', key=label + ':grid', info=info)
            # |result - exact| < quantum (rounding mode details are C05's subject)
            d = r.amount - exact_ref / C.scale(r.unit)
            E.check(E.And(d < q, -q < d), label + '-within-quantum', key=label + ':value', info=info)
    return r


def pair_ops(E, cfg):
    from quantity import Quantity
    us, vs = E.choice('pair', cfg['pairs'])
    u, v = C.unit(us), C.unit(vs)
    a = E.rational('a', cfg['fa'])
    b = E.rational('b', cfg['fb'])
    E.assume(b != 0)
    E.assume(a != 0)
    qa, qb = Quantity(a, u), Quantity(b, v)
    E.assume(E.And(qa.amount != 0, qb.amount != 0))     # quantized types may round to zero
    du, dv = C.unit_dim_vector(u), C.unit_dim_vector(v)
    su, sv = C.scale(u), C.scale(v)
    no_ref = u.qty_cls.ref_unit is None or v.qty_cls.ref_unit is None
    info = [us, vs]
    ra, rb = qa.amount * su, qb.amount * sv
    if no_ref:
        # temperature: no scale; products have no declared type, same-unit quotient is a number
        from quantity import QuantityError
        for label, fn in (('mul-qq', lambda: qa * qb), ('mul-uu', lambda: u * v)):
            if u.qty_cls is v.qty_cls or True:
                try:
                    r = fn()
                except QuantityError:
                    E.ok(label + '-no-ref-unit')
                except Exception as e:
                    E.fail(label + '-no-ref-unit', key='%s:no-ref-unit:%s' % (label, type(e).__name__), info=info)
                else:
                    E.fail(label + '-no-ref-unit', key='%s:no-ref-unit:returned' % label, info=info)
        if u is v:
            # one and the same unit: the dimensions cancel whatever the type
            _check_result(E, 'same-unit-div-uu', lambda: u / v, {}, Fraction(1), info)
            _check_result(E, 'same-unit-div-qq', lambda: qa / qb, {}, qa.amount / qb.amount, info)
            _check_result(E, 'same-unit-div-qu', lambda: qa / v, {}, qa.amount, info)
            _check_result(E, 'same-unit-div-uq', lambda: u / qb, {}, 1 / qb.amount, info)
        return
    mul_vec, div_vec = _combine(du, dv, 1), _combine(du, dv, -1)
    # the result type DataVolume is quantized: keep one operand concrete there (linearity rule)
    _check_result(E, 'mul-qq', lambda: qa * qb, mul_vec, ra * rb, info)
    _check_result(E, 'mul-qu', lambda: qa * v, mul_vec, ra * sv, info)
    _check_result(E, 'mul-uq', lambda: u * qb, mul_vec, su * rb, info)
    _check_result(E, 'mul-uu', lambda: u * v, mul_vec, su * sv, info)
    _check_result(E, 'div-qq', lambda: qa / qb, div_vec, ra / rb, info)
    _check_result(E, 'div-qu', lambda: qa / v, div_vec, ra / sv, info)
    _check_result(E, 'div-uq', lambda: u / qb, div_vec, su / rb, info)
    _check_result(E, 'div-uu', lambda: u / v, div_vec, su / sv, info)
    # the same pair in the other operand order, after the first order was evaluated (shared
    # unit-operation cache): results must still match the oracle
    rdiv_vec = _combine(dv, du, -1)
    _check_result(E, 'rdiv-uu', lambda: v / u, rdiv_vec, sv / su, info)
    _check_result(E, 'rdiv-qq', lambda: qb / qa, rdiv_vec, rb / ra, info)
    _check_result(E, 'rmul-uu', lambda: v * u, mul_vec, su * sv, info)
    _check_result(E, 'rmul-qq', lambda: qb * qa, mul_vec, ra * rb, info)
    _check_result(E, 'again-div-uu', lambda: u / v, div_vec, su / sv, info)
    _check_result(E, 'again-mul-uu', lambda: u * v, mul_vec, su * sv, info)
    E.observe('ra', ra)
    if cfg.get('canary'):
        r = qa * qb
        E.check(r.amount * C.scale(r.unit) == ra + rb, 'canary-product-as-sum')


def powers(E, cfg):
    from quantity import Quantity
    us = E.choice('unit', cfg['units'])
    u = C.unit(us)
    if u.qty_cls.ref_unit is None:
        E.ok('skipped-no-ref-unit')
        return
    a = E.rational('a', 'dec')
    E.assume(a != 0)
    qa = Quantity(a, u)
    E.assume(qa.amount != 0)
    du, su = C.unit_dim_vector(u), C.scale(u)
    ra = qa.amount * su
    for n in range(-3, 4):
        vec = {k: e * n for k, e in du.items()} if n else {}
        exact_u = su ** n if n >= 0 else 1 / su ** (-n)
        exact_q = ra ** n if n >= 0 else 1 / ra ** (-n)
        _check_result(E, 'pow-unit', lambda: u ** n, vec, exact_u, [us, n])
        _check_result(E, 'pow-qty', lambda: qa ** n, vec, exact_q, [us, n])
    E.observe('ra', ra)


def scalars(E, cfg):
    from quantity import Quantity
    us = E.choice('unit', cfg['units'])
    u = C.unit(us)
    cls = u.qty_cls
    if cls.quantum is not None:
        E.ok('skipped-quantized')       # C05
        return
    a = E.rational('a', cfg.get('fa', 'dec'))
    k = E.rational('k', 'frac')
    E.assume(k != 0)
    E.assume(a != 0)
    qa = Quantity(a, u)
    for label, fn, exact in (('qty-times-k', lambda: qa * k, a * k), ('k-times-qty', lambda: k * qa, a * k),
                             ('qty-div-k', lambda: qa / k, a / k), ('unit-times-k', lambda: u * k, k),
                             ('k-times-unit', lambda: k * u, k), ('unit-div-k', lambda: u / k, 1 / k)):
        r = fn()
        E.check(type(r) is cls and r.unit is u, label + '-keeps-class-unit', key=label + ':class-unit', info=us)
        E.check(r.amount == exact, label + '-value', key=label + ':value', info=us)
    for label, fn, exact in (('qty-div-float', lambda: qa / 2.0, a / 2), ('qty-times-float', lambda: qa * 0.5, a / 2),
                             ('float-times-qty', lambda: 0.25 * qa, a / 4), ('unit-times-float', lambda: u * 1.5, Fraction(3, 2)),
                             ('unit-div-float', lambda: u / 0.5, Fraction(2)),
                             # floats count with their exact binary value
                             ('qty-times-float-inexact', lambda: qa * 0.1, a * Fraction(0.1)),
                             ('float-times-qty-inexact', lambda: 0.3 * qa, a * Fraction(0.3)),
                             ('qty-div-float-inexact', lambda: qa / 0.7, a / Fraction(0.7))):
        r = fn()
        E.check(type(r) is cls and r.unit is u, label + '-keeps-class-unit', key=label + ':class-unit', info=us)
        E.check(r.amount == exact, label + '-value', key=label + ':value', info=us)
    if cls.ref_unit is not None:
        du, su = C.unit_dim_vector(u), C.scale(u)
        inv = {kk: -e for kk, e in du.items()}
        _check_result(E, 'k-div-qty', lambda: k / qa, inv, k / (a * su), [us])
        _check_result(E, 'k-div-unit', lambda: k / u, inv, k / su, [us])
    E.observe('a', qa.amount)


# ------------------------------------------------------- user catalogue paths
def _prog_price(E):
    """type without reference unit: price per mass, some units declared, some missing"""
    import quantity.predefined as pre
    from quantity.money import Money
    eur, usd, hkd = (Money.register_currency(c) for c in ('EUR', 'USD', 'HKD'))
    PPM = C.mk_cls('PricePerMass', define_as=Money / pre.Mass)
    eur_kg = PPM.derive_unit_from(eur, pre.KILOGRAM)
    usd_kg = PPM.derive_unit_from(usd, pre.KILOGRAM)
    eur_g = PPM.derive_unit_from(eur, pre.GRAM)
    return {'PPM': PPM, 'eur': eur, 'usd': usd, 'hkd': hkd, 'eur_kg': eur_kg, 'usd_kg': usd_kg,
            'eur_g': eur_g, 'kg': pre.KILOGRAM, 'g': pre.GRAM, 'lb': pre.POUND}


def user_price(E, cfg):
    from quantity import Quantity, UndefinedResultError
    from quantity.money import Money
    d = _prog_price(E)
    p = E.rational('p', 'dec')
    m = E.rational('m', 'dec')
    E.assume(E.And(p != 0, m != 0))
    case = E.choice('case', ['eurkg*kg', 'eurkg*g', 'eurg*kg', 'usdkg*lb', 'eur/kg', 'eur/g', 'hkd/kg',
                             'eur/lb', 'kg*eurkg', 'eurkg/eurkg', 'seq-eur-then-usd'])
    info = [case]
    if case in ('eurkg*kg', 'eurkg*g', 'eurg*kg', 'usdkg*lb', 'kg*eurkg'):
        pu = {'eurkg*kg': 'eur_kg', 'eurkg*g': 'eur_kg', 'eurg*kg': 'eur_g', 'usdkg*lb': 'usd_kg',
              'kg*eurkg': 'eur_kg'}[case]
        mu = {'eurkg*kg': 'kg', 'eurkg*g': 'g', 'eurg*kg': 'kg', 'usdkg*lb': 'lb', 'kg*eurkg': 'kg'}[case]
        price, mass = Quantity(p, d[pu]), Quantity(m, d[mu])
        cur = d['usd'] if pu == 'usd_kg' else d['eur']
        per = Fraction(1, 1000) if pu == 'eur_g' else Fraction(1)     # kg per price mass unit
        exact = p * m * C.scale(d[mu]) / per
        try:
            r = mass * price if case == 'kg*eurkg' else price * mass
        except Exception as e:
            E.fail('price-x-mass', key='price-x-mass:%s' % type(e).__name__, info=info)
            return
        E.check(type(r) is Money and r.unit is cur, 'price-x-mass-money', key='price-x-mass:class-unit', info=info)
        q = Fraction(1, 100)
        dlt = r.amount - exact
        E.check(E.And(E.is_int(r.amount / q), dlt < q, -q < dlt), 'price-x-mass-value',
                key='price-x-mass:value', info=info)
        return
    if case in ('eur/kg', 'eur/g', 'hkd/kg', 'eur/lb'):
        cu, mu = case.split('/')
        money, mass = Money(p, d[cu]), Quantity(m, d[mu])
        declared = case in ('eur/kg', 'eur/g')
        try:
            r = money / mass
        except UndefinedResultError:
            E.check(not declared, 'money-div-mass-undefined', key='money-div-mass:undefined-although-declared', info=info)
            return
        except Exception as e:
            E.fail('money-div-mass', key='money-div-mass:%s' % type(e).__name__, info=info)
            return
        if not declared:
            # a declared unit convertible to the needed one may be used instead (eur/lb -> eur/kg)
            if case == 'eur/lb':
                E.check(type(r) is d['PPM'] and r.unit in (d['eur_kg'], d['eur_g']), 'money-div-mass-fallback-unit',
                        key='money-div-mass:fallback-unit', info=info)
                per_kg = money.amount / (m * C.scale(d['lb']))
                exact = per_kg if r.unit is d['eur_kg'] else per_kg / 1000
                E.check(r.amount == exact, 'money-div-mass-fallback-value', key='money-div-mass:value', info=info)
            else:
                E.fail('money-div-mass-undefined', key='money-div-mass:value-although-no-unit', info=info)
            return
        E.check(type(r) is d['PPM'], 'money-div-mass-class', key='money-div-mass:class', info=info)
        E.check(r.unit is d['eur_kg' if mu == 'kg' else 'eur_g'], 'money-div-mass-unit', key='money-div-mass:unit', info=info)
        E.check(r.amount == money.amount / m, 'money-div-mass-value', key='money-div-mass:value', info=info)
        return
    if case == 'seq-eur-then-usd':
        # the same operation for two units of the reference-less type, one after the other
        usd_per_kg = d['PPM'].derive_unit_from(d['usd'], d['kg']) if False else d['usd_kg']
        mass = Quantity(m, d['kg'])
        for cur, pu in (('eur', 'eur_kg'), ('usd', 'usd_kg'), ('eur', 'eur_kg')):
            r = mass * Quantity(p, d[pu])
            E.check(type(r) is Money and r.unit is d[cur], 'price-sequence-keeps-currency', key='price-seq:currency', info=[cur])
            a_, u_ = d['kg'] * d[pu]
            E.check(u_ is d[cur], 'price-sequence-unit-product', key='price-seq:unit-product', info=[cur])
        return
    if case == 'eurkg/eurkg':
        r = Quantity(p, d['eur_kg']) / Quantity(m, d['eur_kg'])
        E.check(not isinstance(r, Quantity) and r == p / m, 'price-ratio-number', key='price-ratio:value', info=info)
        return


def user_cancel(E, cfg):
    """dimensions cancelling across different types (frequency x duration and a user pair)"""
    import quantity.predefined as pre
    from quantity import Quantity
    a = E.rational('a', 'dec')
    b = E.rational('b', 'frac')
    E.assume(E.And(a != 0, b != 0))
    X = C.mk_cls('XLen', ref_unit_symbol='x0')
    XI = C.mk_cls('XInv', define_as=X ** -1, ref_unit_symbol='xi0')
    x1 = X.new_unit('x1', None, Fraction(5, 2) * X.ref_unit)
    xi1 = XI.new_unit('xi1', None, Fraction(1, 8) * XI.ref_unit)
    cases = [('s*Hz', pre.SECOND, pre.HERTZ, 1), ('min*kHz', pre.MINUTE, pre.KILOHERTZ, 1),
             ('kHz*min', pre.KILOHERTZ, pre.MINUTE, 1), ('x1*xi1', x1, xi1, 1), ('xi0*x1', XI.ref_unit, x1, 1),
             ('W/(J/s)', None, None, 0), ('m/km-unit-qty', pre.METRE, pre.KILOMETRE, -1),
             ('Hz/(1/s)', None, None, 0)]
    name, u, v, sign = E.choice('case', cases)
    if u is None:
        if name == 'W/(J/s)':
            r_fn = lambda: Quantity(a, pre.WATT) / (Quantity(b, pre.JOULE) / Quantity(1, pre.SECOND))
            exact = a / b
        else:
            r_fn = lambda: Quantity(a, pre.KILOHERTZ) * Quantity(b, pre.MILLISECOND)
            exact = a * b
        _check_result(E, 'cancel-' + name, r_fn, {}, exact, [name])
        return
    su, sv = C.scale(u), C.scale(v)
    qa, qb = Quantity(a, u), Quantity(b, v)
    if sign == 1:
        _check_result(E, 'cancel-qq', lambda: qa * qb, {}, a * su * b * sv, [name])
        _check_result(E, 'cancel-qu', lambda: qa * v, {}, a * su * sv, [name])
        _check_result(E, 'cancel-uq', lambda: u * qb, {}, su * b * sv, [name])
        _check_result(E, 'cancel-uu', lambda: u * v, {}, su * sv, [name])
    else:
        _check_result(E, 'cancel-div-qq', lambda: qa / qb, {}, a * su / (b * sv), [name])
        _check_result(E, 'cancel-div-qu', lambda: qa / v, {}, a * su / sv, [name])
        _check_result(E, 'cancel-div-uq', lambda: u / qb, {}, su / (b * sv), [name])
        _check_result(E, 'cancel-div-uu', lambda: u / v, {}, su / sv, [name])


def user_derived(E, cfg):
    """derived user types with generated reference units; declared-later result type"""
    from quantity import Quantity, UndefinedResultError
    a = E.rational('a', 'dec')
    b = E.rational('b', 'dec')
    E.assume(E.And(a != 0, b != 0))
    X = C.mk_cls('XLen', ref_unit_symbol='x0')
    Y = C.mk_cls('YDur', ref_unit_symbol='y0')
    x1 = X.new_unit('x1', None, Fraction(5, 2) * X.ref_unit)
    y1 = Y.new_unit('y1', None, Fraction(60) * Y.ref_unit)
    qa, qb = Quantity(a, x1), Quantity(b, y1)
    C.expect_raises(E, lambda: qa / qb, UndefinedResultError, 'undeclared-quotient-raises', ['x1/y1'])
    C.expect_raises(E, lambda: qa * qa, UndefinedResultError, 'undeclared-square-raises', ['x1*x1'])
    V = C.mk_cls('XVel', define_as=X / Y)
    A2 = C.mk_cls('XArea', define_as=X ** 2)
    v1 = V.derive_unit_from(x1, y1)
    r = qa / qb
    E.check(type(r) is V, 'declared-quotient-class', key='user-derived:class')
    E.check(r.amount * C.scale(r.unit) == a * Fraction(5, 2) / (b * 60), 'declared-quotient-value',
            key='user-derived:value')
    r2 = qa * qa
    E.check(type(r2) is A2 and r2.amount * C.scale(r2.unit) == a * a * Fraction(25, 4), 'declared-square',
            key='user-derived:square')
    r3 = r * qb
    E.check(type(r3) is X and r3.amount * C.scale(r3.unit) == a * Fraction(5, 2), 'velocity-x-duration',
            key='user-derived:back')
    r4 = r2 / qa
    E.check(type(r4) is X and r4.amount * C.scale(r4.unit) == a * Fraction(5, 2), 'area-div-length',
            key='user-derived:area-div')


def user_rejected(E, cfg):
    """a declaration that is rejected (second type for a dimension, second unit for a symbol) does not change
    what later products / quotients resolve to"""
    import quantity.predefined as pre
    from quantity import Quantity
    a = E.rational('a', 'dec')
    b = E.rational('b', 'frac')
    E.assume(E.And(a != 0, b != 0))
    case = E.choice('case', ['dup-force', 'dup-velocity-user', 'dup-symbol-derived', 'none'])
    X = C.mk_cls('XLen', ref_unit_symbol='x0')
    Y = C.mk_cls('YDur', ref_unit_symbol='y0')
    V = C.mk_cls('XVel', define_as=X / Y, ref_unit_symbol='v0')
    x1 = X.new_unit('x1', None, Fraction(5, 2) * X.ref_unit)
    y1 = Y.new_unit('y1', None, Fraction(60) * Y.ref_unit)
    if case == 'dup-force':
        C.expect_raises(E, lambda: C.mk_cls('Drag', define_as=pre.Energy / pre.Length, ref_unit_symbol='Dr'),
                        ValueError, 'second-type-for-dimension-rejected', [case])
    elif case == 'dup-velocity-user':
        C.expect_raises(E, lambda: C.mk_cls('XVel2', define_as=X / Y, ref_unit_symbol='vz'),
                        ValueError, 'second-type-for-dimension-rejected', [case])
    elif case == 'dup-symbol-derived':
        C.expect_raises(E, lambda: V.derive_unit_from(x1, y1, symbol='v0'),
                        ValueError, 'second-unit-for-symbol-rejected', [case])
    info = [case]
    for label, fn, cls, exact in (
            ('t*m/s2', lambda: Quantity(a, pre.TONNE) * Quantity(b, pre.METRE_PER_SECOND_SQUARED), pre.Force, a * 1000 * b),
            ('J/m', lambda: Quantity(a, pre.JOULE) / Quantity(b, pre.METRE), pre.Force, a / b),
            ('N*km', lambda: Quantity(a, pre.NEWTON) * Quantity(b, pre.KILOMETRE), pre.Energy, a * b * 1000),
            ('x1/y1', lambda: Quantity(a, x1) / Quantity(b, y1), V, a * Fraction(5, 2) / (b * 60)),
            ('x0/y1', lambda: Quantity(a, X.ref_unit) / Quantity(b, y1), V, a / (b * 60)),
            ('v0*y1', lambda: Quantity(a, V.ref_unit) * Quantity(b, y1), X, a * b * 60)):
        try:
            r = fn()
        except Exception as e:
            E.fail('after-rejected-' + label, key='after-rejected:%s' % type(e).__name__, info=info + [label])
            continue
        E.check(type(r) is cls, 'after-rejected-class', key='after-rejected:class', info=info + [label, type(r).__name__])
        E.check(r.unit.qty_cls is cls and r.amount * C.scale(r.unit) == exact, 'after-rejected-value',
                key='after-rejected:value', info=info + [label])
        # the result takes part in further arithmetic of its type
        try:
            s2 = r + r
        except Exception as e:
            E.fail('after-rejected-sum', key='after-rejected:sum-%s' % type(e).__name__, info=info + [label])
        else:
            E.check(s2.amount == 2 * r.amount, 'after-rejected-sum', key='after-rejected:sum', info=info + [label])


def user_same_prefix(E, cfg):
    """types whose names are equal or share a long prefix: products and quotients in either operand order"""
    from quantity import Quantity
    n1, n2 = E.choice('names', [('QuantityTypeWithAVeryLongCommonNameA', 'QuantityTypeWithAVeryLongCommonNameB'), ('Same', 'Same')])
    A = C.mk_cls(n1, ref_unit_symbol='pa0')
    B = C.mk_cls(n2, ref_unit_symbol='pb0')
    if E.choice('declared-as', ['a*b', 'b*a']) == 'a*b':
        P = C.mk_cls('PProd', define_as=A * B)
    else:
        P = C.mk_cls('PProd', define_as=B * A)
    Qt = C.mk_cls('PQuot', define_as=B / A)
    a1 = A.new_unit('pa1', None, 4 * A.ref_unit)
    x = E.rational('x', 'dec')
    y = E.rational('y', 'frac')
    E.assume(E.And(x != 0, y != 0))
    qa, qb = Quantity(x, a1), Quantity(y, B.ref_unit)
    for label, fn, cls, exact in (('a*b', lambda: qa * qb, P, 4 * x * y), ('b*a', lambda: qb * qa, P, 4 * x * y),
                                  ('ua*ub', lambda: a1 * B.ref_unit, P, Fraction(4)), ('ub*ua', lambda: B.ref_unit * a1, P, Fraction(4)),
                                  ('b/a', lambda: qb / qa, Qt, y / (4 * x)), ('p/a', lambda: (qa * qb) / qa, B, y),
                                  ('p/b', lambda: (qb * qa) / qb, A, 4 * x)):
        try:
            r = fn()
        except Exception as e:
            E.fail('same-prefix-' + label, key='same-prefix:%s' % type(e).__name__, info=[n1, label])
            continue
        if isinstance(r, tuple):
            amnt, ru = r
            E.check(ru is not None and ru.qty_cls is cls and amnt * C.scale(ru) == exact, 'same-prefix-unit-product',
                    key='same-prefix:value', info=[n1, label])
        else:
            E.check(type(r) is cls and r.amount * C.scale(r.unit) == exact, 'same-prefix-result', key='same-prefix:value',
                    info=[n1, label])


USER_PROGS = ['user_price', 'user_cancel', 'user_derived', 'user_rejected', 'user_same_prefix']


def user_prog(E, cfg):
    return globals()[USER_PROGS[cfg['prog']]](E, cfg)
