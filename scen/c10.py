"""C10 -- applying an exchange rate converts money and prices correctly."""
from __future__ import annotations

from fractions import Fraction

from . import common as C

PROPERTY = 'C10'
BUDGET = {'quick': 150, 'thorough': 900}
LAST_CONFIG_INFO = {}

RATES = [('1', '1.3333333333'), ('755', '1000'), ('1', '4/3'), ('1', '1.25'), ('1', '0.9683'), ('100', '16327'), ('1', '0.512821'), ('1', '0.546448'), ('1000', '2.05'),
         ('1', '163.27'), ('1', '0.000123'), ('10', '12.5'), ('1', '1.09827'), ('1', '99999.999999'), ('1', '7.5')]

META = {
    'bounds': ['slice A: money amount unbounded rational (both flavours) with 12 concrete rates across magnitudes; '
               'slice B: rate term amount symbolic (10^-4..10^7) with concrete amounts; prices: unbounded rational, '
               'rate concrete or symbolic (no quantum on compound units)',
               'operand orders m*r, r*m, m/r; matching and non-matching currency; currencies with 0, 2, 3 minor units; '
               '8 default rounding modes (quick: 3)',
               'compound catalogue built in the path: PricePerMass {EUR/kg, HKD/kg, EUR/g, USD/lb}, PricePerLength '
               '{EUR/m}, missing units, non-money quantity, money-free compound'],
    'outside_bounds': ['amount and rate symbolic simultaneously for plain money (rounding of a product of two unknowns)'],
    'stubs': ['Decimal(x, precision) rounding contract', 'Decimal.magnitude / math.log10 (symbolic rates)'],
    'assumptions': [],
}
META['bounds'].append('every third money/rate job also under an active and a registered money converter; price sequences with the target unit declared after the first (rejected) application')


def setup(mode):
    C.import_catalogue()
    import quantity.money  # noqa: F401


def jobs(tier, seed):
    out = []
    modes = C.MODES if tier == 'thorough' else ['ROUND_HALF_EVEN', 'ROUND_FLOOR', 'ROUND_05UP']
    i = 0
    for (um, amt) in RATES:
        for m in (modes if tier == 'thorough' else [modes[i % 3]]):
            out.append({'fn': 'money_rate', 'cfg': {'um': um, 'amt': amt, 'mode': m, 'converter': i % 3 == 0,
                                                    'flav': 'dec' if i % 2 else 'frac',
                                                    'pair': [['EUR', 'USD'], ['EUR', 'JPY'], ['KWD', 'EUR'], ['JPY', 'KWD']][i % 4]}})
            i += 1
    for j, amount in enumerate(['10', '0.10', '1.50', '1000000', '-335.04', '0.01']):
        out.append({'fn': 'money_symrate', 'cfg': {'amount': amount, 'mode': modes[j % len(modes)]},
                    'opts': {'mag_range': (-6, 9)}})
    for sym_rate in (False, True):
        out.append({'fn': 'price_rate', 'cfg': {'sym_rate': sym_rate}, 'opts': {'mag_range': (-6, 9)}})
    out.append({'fn': 'price_sequence', 'cfg': {}})
    out.append({'fn': 'money_rate', 'cfg': {'um': '1', 'amt': '1.25', 'mode': 'ROUND_HALF_EVEN', 'flav': 'dec',
                                            'pair': ['EUR', 'USD'], 'canary': True}, 'canary': True})
    LAST_CONFIG_INFO.clear()
    LAST_CONFIG_INFO.update({'rates': len(RATES), 'modes': len(modes), 'exhaustive': False})
    return out


def _q(code):
    return Fraction(1, 10 ** C.iso_table()[code][1])


def money_rate(E, cfg):
    from decimalfp import Decimal
    from quantity.money import ExchangeRate, Money
    C.set_default_mode(cfg['mode'])
    mode = C.mode(cfg['mode'])
    cu, ct = (Money.register_currency(c) for c in cfg['pair'])
    other = Money.register_currency('HKD')
    amt = C.num(cfg['amt'])
    rate = ExchangeRate(cu, int(cfg['um']), ct, amt)
    # the rate that is applied is the stored (normalised, six-digit) one: C09 relates it to the input
    true_rate = Fraction(rate.rate.numerator, rate.rate.denominator)
    # (how close the stored rate is to the given one is C09's subject -- and depends on the default rounding
    # mode that is active when the rate is built, which C09 does not vary)
    a = E.rational('a', cfg['flav'])
    m = Money(a, cu)
    qt, qu = _q(cfg['pair'][1]), _q(cfg['pair'][0])
    for label, fn in (('money-x-rate', lambda: m * rate), ('rate-x-money', lambda: rate * m)):
        r = fn()
        E.check(type(r) is Money and r.unit is ct, label + '-term-currency', key=label + ':class-unit')
        E.check(E.is_rounding(mode, r.amount / qt, m.amount * true_rate / qt), label + '-exact-product-rounded-once',
                key=label + ':value', info=cfg)
    mt = Money(a, ct)
    r = mt / rate
    E.check(type(r) is Money and r.unit is cu, 'money-div-rate-unit-currency', key='money-div-rate:class-unit')
    E.check(E.is_rounding(mode, r.amount / qu, mt.amount / true_rate / qu), 'money-div-rate-exact-quotient-rounded-once',
            key='money-div-rate:value', info=cfg)
    # non-matching currency
    mo = Money(a, other)

    def mismatches(tag):
        C.expect_raises(E, lambda: mo * rate, ValueError, 'non-matching-currency-mul-rejected' + tag)
        C.expect_raises(E, lambda: rate * mo, ValueError, 'non-matching-currency-rmul-rejected' + tag)
        C.expect_raises(E, lambda: mo / rate, ValueError, 'non-matching-currency-div-rejected' + tag)
        C.expect_raises(E, lambda: mt * rate, ValueError, 'term-currency-times-rate-rejected' + tag)
        C.expect_raises(E, lambda: m / rate, ValueError, 'unit-currency-div-rate-rejected' + tag)
    mismatches('')
    if cfg.get('converter'):
        # an active money converter that knows all three currencies changes nothing: applying a rate is no conversion
        from quantity.money import MoneyConverter
        conv = MoneyConverter(cu)
        conv.update(None, [(ct, Decimal('1.75'), 1), (other, Decimal('9.25'), 1)])
        with conv:
            mismatches('-with-active-converter')
            r2 = m * rate
            E.check(r2.unit is ct and E.is_rounding(mode, r2.amount / qt, m.amount * true_rate / qt),
                    'money-x-rate-with-active-converter', key='money-x-rate:value-with-converter', info=cfg)
        Money.register_converter(conv)
        mismatches('-with-registered-converter')
        Money.remove_converter(conv)
    E.observe('res', r.amount)
    if cfg.get('canary'):
        r = m * rate
        E.check(r.amount == m.amount * true_rate, 'canary-unrounded-product')


def money_symrate(E, cfg):
    from decimalfp import Decimal
    from quantity.money import ExchangeRate, Money
    C.set_default_mode(cfg['mode'])
    mode = C.mode(cfg['mode'])
    eur, usd = Money.register_currency('EUR'), Money.register_currency('USD')
    t = E.rational('t', 'dec')
    E.assume(E.And(t >= Fraction(1, 10 ** 3), t <= 10 ** 6))
    rate = ExchangeRate(eur, 1, usd, t)
    m = Money(Decimal(cfg['amount']), eur)
    q = Fraction(1, 100)
    r = m * rate
    E.check(type(r) is Money and r.unit is usd, 'symrate-money-x-rate-unit')
    E.check(E.is_rounding(mode, r.amount / q, m.amount * rate.rate / q), 'symrate-product-rounded-once',
            key='symrate:mul-value', info=cfg)
    r2 = rate * m
    E.check(E.is_rounding(mode, r2.amount / q, m.amount * rate.rate / q), 'symrate-rproduct-rounded-once',
            key='symrate:rmul-value', info=cfg)
    E.observe('res', r.amount)


def _catalogue():
    import quantity.predefined as pre
    from quantity.money import Money
    eur, usd, hkd = (Money.register_currency(c) for c in ('EUR', 'USD', 'HKD'))
    PPM = C.mk_cls('PricePerMass', define_as=Money / pre.Mass)
    PPL = C.mk_cls('PricePerLength', define_as=Money / pre.Length)
    d = {'eur': eur, 'usd': usd, 'hkd': hkd, 'PPM': PPM, 'PPL': PPL}
    d['EUR/kg'] = PPM.derive_unit_from(eur, pre.KILOGRAM)
    d['HKD/kg'] = PPM.derive_unit_from(hkd, pre.KILOGRAM)
    d['EUR/g'] = PPM.derive_unit_from(eur, pre.GRAM)
    d['USD/lb'] = PPM.derive_unit_from(usd, pre.POUND)
    d['EUR/m'] = PPL.derive_unit_from(eur, pre.METRE)
    # price units whose currency sits one level down in their definition (scaled price unit)
    d['EUR/100kg'] = PPM.new_unit('EUR/100kg', None, Fraction(1, 100) * d['EUR/kg'])
    d['HKD/100kg'] = PPM.new_unit('HKD/100kg', None, Fraction(1, 100) * d['HKD/kg'])
    return d


# mass (in kg) of the mass unit inside each declared price unit
_PER = {'EUR/kg': Fraction(1), 'HKD/kg': Fraction(1), 'EUR/g': Fraction(1, 1000), 'USD/lb': Fraction('0.45359237'),
        'EUR/100kg': Fraction(100), 'HKD/100kg': Fraction(100)}
_CUR = {'EUR/100kg': 'eur', 'HKD/100kg': 'hkd', 'EUR/kg': 'eur', 'HKD/kg': 'hkd', 'EUR/g': 'eur', 'USD/lb': 'usd', 'EUR/m': 'eur'}


def price_rate(E, cfg):
    from decimalfp import Decimal
    import quantity.predefined as pre
    from quantity import Quantity, QuantityError
    from quantity.money import ExchangeRate
    d = _catalogue()
    p = E.rational('p', 'dec')
    cases = [('EUR/kg', 'eur', 'hkd', 'mul'), ('EUR/g', 'eur', 'hkd', 'mul'), ('EUR/kg', 'eur', 'usd', 'mul'),
             ('HKD/kg', 'eur', 'hkd', 'div'), ('USD/lb', 'eur', 'usd', 'div'), ('HKD/kg', 'eur', 'usd', 'mul'),
             ('EUR/kg', 'usd', 'hkd', 'mul'), ('EUR/kg', 'eur', 'hkd', 'div'), ('EUR/m', 'eur', 'usd', 'mul'),
             ('kg', 'eur', 'usd', 'mul'), ('m/s', 'eur', 'usd', 'mul'), ('kg', 'eur', 'usd', 'div'),
             ('EUR/g', 'hkd', 'eur', 'div'), ('rmul:EUR/kg', 'eur', 'hkd', 'mul'), ('EUR/100kg', 'eur', 'hkd', 'mul'),
             ('rmul:EUR/100kg', 'eur', 'hkd', 'mul'), ('HKD/100kg', 'eur', 'hkd', 'div')]
    pu, rcu, rct, op = E.choice('case', cases)
    rmul = pu.startswith('rmul:')
    pu = pu.split(':')[-1]
    if cfg['sym_rate']:
        t = E.rational('t', 'dec')
        E.assume(E.And(t >= Fraction(1, 100), t <= 10 ** 5))
    else:
        t = Decimal('8.395')
    rate = ExchangeRate(d[rcu], 1, d[rct], t)
    if pu in ('kg', 'm/s'):
        price = Quantity(p, C.unit(pu))
    else:
        price = Quantity(p, d[pu])
    info = [pu, rcu, rct, op]
    try:
        if op == 'mul':
            r = rate * price if rmul else price * rate
        else:
            r = price / rate
    except QuantityError:
        outcome = 'QuantityError'
    except Exception as e:
        E.fail('price-rate-exception-class', key='price-rate:wrong-exception:%s' % type(e).__name__, info=info)
        return
    else:
        outcome = 'value'
    if pu in ('kg', 'm/s', 'EUR/m'):
        if pu == 'EUR/m' and False:
            pass
    # expectation from the declared catalogue
    src_cur = _CUR.get(pu)
    needed_from = rcu if op == 'mul' else rct
    target_cur = rct if op == 'mul' else rcu
    if src_cur is None or src_cur != needed_from:
        E.check(outcome == 'QuantityError', 'price-rate-rejected-when-currency-does-not-apply',
                key='price-rate:accepted-although-no-matching-money', info=info)
        return
    if pu == 'EUR/m':
        candidates = []                      # no USD/m declared
    else:
        candidates = [k for k in _PER if _CUR[k] == target_cur]
    exact_same_mass = [k for k in candidates if _PER[k] == _PER[pu]]
    if not candidates:
        E.check(outcome == 'QuantityError', 'price-rate-rejected-when-target-unit-missing',
                key='price-rate:accepted-although-target-missing', info=info)
        return
    if exact_same_mass:
        # the compound unit with the other currency is declared: must be used
        E.check(outcome == 'value', 'price-rate-accepted-when-target-unit-declared',
                key='price-rate:rejected-although-target-declared', info=info)
    elif outcome == 'QuantityError':
        # target unit itself (same mass unit, other currency) is not declared: rejection is what the
        # property states; a fall-back to another declared unit of that currency is checked below
        E.ok('price-rate-rejected-target-unit-not-declared')
        return
    if outcome != 'value':
        return
    E.check(type(r) is d['PPM'], 'price-rate-class', key='price-rate:class', info=info)
    hit = [k for k in candidates if r.unit is d[k]]
    E.check(len(hit) == 1, 'price-rate-unit-declared-with-target-currency', key='price-rate:unit', info=info)
    if not hit:
        return
    factor = rate.rate if op == 'mul' else rate.inverse_rate
    # value per kg is invariant: amount / (kg per mass unit)
    E.check(r.amount / _PER[hit[0]] == p * factor / _PER[pu], 'price-rate-value-scaled-by-exactly-the-rate',
            key='price-rate:value', info=info)
    if exact_same_mass:
        E.check(r.unit is d[exact_same_mass[0]], 'price-rate-prefers-same-mass-unit', key='price-rate:unit-same-mass',
                info=info)
    E.observe('res', r.amount)


def price_sequence(E, cfg):
    """two applications in one process: the second must not be influenced by the first"""
    from decimalfp import Decimal
    from quantity import Quantity, QuantityError
    from quantity.money import ExchangeRate, Money
    d = _catalogue()
    p = E.rational('p', 'dec')
    r_eu = ExchangeRate(d['eur'], 1, d['usd'], Decimal('1.25'))
    r_eh = ExchangeRate(d['eur'], 1, d['hkd'], Decimal('8.395'))
    r_uh = ExchangeRate(d['usd'], 1, d['hkd'], Decimal('7.8'))
    seqs = ['div-then-mismatch', 'mul-then-mismatch', 'mul-then-other-rate', 'money-then-mismatch', 'repeat',
            'undeclared-then-declared-mul', 'undeclared-then-declared-rmul', 'undeclared-then-declared-div']
    seq = E.choice('seq', seqs)
    if seq.startswith('undeclared-then-declared'):
        import quantity.predefined as pre
        how = seq.rsplit('-', 1)[1]
        # the target unit does not exist yet: rejected; once it is declared the same application succeeds
        # (a currency without any declared price unit: a declared unit convertible to the needed one would be used)
        jpy = Money.register_currency('JPY')
        r_ej = ExchangeRate(d['eur'], 1, jpy, Decimal('160.5'))
        r_jh = ExchangeRate(jpy, 100, d['hkd'], Decimal('5.25'))
        if how == 'div':
            price = Quantity(p, d['HKD/kg'])
            fn = lambda: price / r_jh                                       # -> JPY/kg, undeclared
            exact = p / Fraction('0.0525')
        else:
            price = Quantity(p, d['EUR/kg'])
            fn = (lambda: price * r_ej) if how == 'mul' else (lambda: r_ej * price)   # -> JPY/kg, undeclared
            exact = p * Fraction('160.5')
        target = lambda: d['PPM'].derive_unit_from(jpy, pre.KILOGRAM)
        C.expect_raises(E, fn, QuantityError, 'seq-undeclared-target-rejected', [how])
        C.expect_raises(E, fn, QuantityError, 'seq-undeclared-target-rejected-again', [how])
        tu = target()
        try:
            r = fn()
        except Exception as e:
            E.fail('seq-declared-target-accepted', key='price-seq:declared-later-%s' % type(e).__name__, info=[how])
            return
        E.check(type(r) is d['PPM'] and r.unit is tu and r.amount == exact, 'seq-declared-target-value',
                key='price-seq:declared-later-value', info=[how])
        return
    if seq == 'div-then-mismatch':
        first = Quantity(p, d['USD/lb']) / r_eu
        E.check(first.unit is d['EUR/kg'] or first.unit is d['EUR/g'], 'seq-first-ok')
        C.expect_raises(E, lambda: Quantity(p, d['USD/lb']) / r_eh, QuantityError, 'seq-div-mismatch-after-match-rejected')
    elif seq == 'mul-then-mismatch':
        first = Quantity(p, d['EUR/kg']) * r_eh
        E.check(first.unit is d['HKD/kg'], 'seq-first-ok')
        C.expect_raises(E, lambda: Quantity(p, d['EUR/kg']) * r_uh, QuantityError, 'seq-mul-mismatch-after-match-rejected')
        C.expect_raises(E, lambda: Quantity(p, d['HKD/kg']) * r_eh, QuantityError, 'seq-mul-term-currency-price-rejected')
    elif seq == 'mul-then-other-rate':
        first = Quantity(p, d['EUR/kg']) * r_eh
        r2 = ExchangeRate(d['eur'], 1, d['hkd'], Decimal('9.5'))
        second = Quantity(p, d['EUR/kg']) * r2
        E.check(second.unit is d['HKD/kg'] and second.amount == p * Fraction('9.5'), 'seq-second-rate-used',
                key='price-seq:stale-rate')
        third = Quantity(p, d['EUR/g']) * r_eh
        E.check(third.amount / _PER_UNIT(d, third.unit) == p * Fraction('8.395') / Fraction(1, 1000),
                'seq-other-price-unit', key='price-seq:other-unit')
    elif seq == 'money-then-mismatch':
        m = Money(p, d['eur'])
        first = m * r_eu
        E.check(first.unit is d['usd'], 'seq-first-ok')
        C.expect_raises(E, lambda: Money(p, d['hkd']) * r_eu, ValueError, 'seq-money-mismatch-after-match-rejected')
        C.expect_raises(E, lambda: m / r_eu, ValueError, 'seq-money-div-unit-currency-rejected')
    else:
        a = Quantity(p, d['HKD/kg']) / r_eh
        b = Quantity(p, d['HKD/kg']) / r_eh
        E.check(a.unit is b.unit and a.amount == b.amount, 'seq-repeat-equal', key='price-seq:repeat')
        E.check(a.unit is d['EUR/kg'] and a.amount == p / Fraction('8.395'), 'seq-repeat-value', key='price-seq:repeat-value')


def _PER_UNIT(d, unit):
    for k, v in _PER.items():
        if d[k] is unit:
            return v
    raise AssertionError('unit not in catalogue')
