"""C01 -- unit conversion within a quantity type is exact and coherent."""
from __future__ import annotations

from fractions import Fraction

from . import common as C

PROPERTY = 'C01'
BUDGET = {'quick': 150, 'thorough': 1200}
LAST_CONFIG_INFO = {}

META = {
    'bounds': [
        'amounts: unbounded rationals (z3 Real), decimal- and fraction-flavoured',
        'catalogue: the 13 predefined linear types; user chains of length <= 3 with symbolic '
        'positive scale factors; derived user types with exponents |e| <= 3',
        'quick: all ordered in-type pairs, a seeded sub-selection of triples and cross-type '
        'pairs; thorough: all pairs, all triples, all cross-type pairs',
    ],
    'outside_bounds': [
        'user chains longer than 3, symbolic factors equal to a scale already registered for '
        'the same dimension (assumed away, see DESIGN 3.2)',
        'non-linear types (temperature: C14; money: C08)',
    ],
    'stubs': ['decimalfp.Decimal(x, precision) rounding contract (quantized types only)',
              'proxy hash = constant'],
    'assumptions': [
        'decimalfp / fractions arithmetic is exact (trusted dependency)',
        'scale oracle: own walk of unit.definition',
    ],
}
META['bounds'].append('a table / function converter registered on Length and removed again: 5 unit pairs x 3 converter kinds')
META['bounds'].append('fourth user program: units sharing a descriptive name, unit-first two-item terms with different exponents, int with exponent 3')
META['bounds'].append('fourth user program, third type: units declared by the reciprocal of (normalised) definitions')
META['bounds'].append("fourth user program: 8 units declared with SI prefixes (KILO ... ZEPTO, YOCTO, EXA), scales from the harness' own exponents")


def setup(mode):
    C.import_catalogue()


def _types():
    return C.linear_classes()


def jobs(tier, seed):
    rng = C.rng_for(seed, 'c01')
    out = []
    pairs = []
    triples = []
    for cls in _types():
        us = [u.symbol for u in cls.units()]
        for a in us:
            for b in us:
                pairs.append([a, b])
                for c in us:
                    triples.append([a, b, c])
    n_pairs, n_triples = len(pairs), len(triples)
    cross = []
    classes = C.all_classes()
    for c1 in classes:
        for c2 in classes:
            if c1 is c2:
                continue
            for a in c1.units():
                for b in c2.units():
                    cross.append([a.symbol, b.symbol])
    n_cross = len(cross)
    if tier == 'quick':
        triples = C.sample(rng, triples, 1500)
        # one representative per ordered class pair + seeded extra
        rep = []
        for c1 in classes:
            for c2 in classes:
                if c1 is not c2:
                    rep.append([rng.choice(c1.units()).symbol, rng.choice(c2.units()).symbol])
        cross = rep + C.sample(rng, cross, 300)
    flavs = ['dec', 'frac']
    for fl in flavs:
        for ch in C.chunks(pairs, 12):
            out.append({'fn': 'conv_pair', 'cfg': {'flav': fl, 'pairs': ch}})
    for i, ch in enumerate(C.chunks(triples, 24 if tier == 'quick' else 64)):
        out.append({'fn': 'conv_triple', 'cfg': {'flav': flavs[i % 2], 'triples': ch}})
    for ch in C.chunks(cross, 8 if tier == 'quick' else 32):
        out.append({'fn': 'conv_cross', 'cfg': {'pairs': ch}})
    progs = list(range(len(USER_PROGRAMS)))
    for p in progs:
        for i, sf in enumerate('fgh'):
            if p == 2 and sf == 'g':
                continue    # 1/g**2 in seven scales: feasibility queries take minutes; g stays concrete here
            if p == 3 and sf == 'g':
                continue    # the fourth program has no g
            out.append({'fn': 'conv_user', 'cfg': {'prog': p, 'flav': flavs[(p + i) % 2], 'symfac': sf}})
    # canaries: same harness, one obligation negated
    out.append({'fn': 'conv_with_converter', 'cfg': {}})
    out.append({'fn': 'conv_pair', 'cfg': {'flav': 'dec', 'pairs': [['mi', 'in']], 'canary': True},
                'canary': True})
    out.append({'fn': 'conv_user', 'cfg': {'prog': 0, 'flav': 'frac', 'canary': True},
                'canary': True})
    LAST_CONFIG_INFO.clear()
    LAST_CONFIG_INFO.update({
        'in_type_pairs': {'enumerated': len(pairs), 'total': n_pairs},
        'in_type_triples': {'enumerated': len(triples), 'total': n_triples},
        'cross_type_pairs': {'enumerated': len(cross), 'total': n_cross},
        'user_programs': len(progs),
        'exhaustive': tier == 'thorough',
    })
    return out


def _exact_kind(E, x):
    """amount is an exact rational (proxy of one, or Decimal / Fraction), never float"""
    from decimalfp import Decimal
    return isinstance(x, (Decimal, Fraction)) and not isinstance(x, float)


def conv_pair(E, cfg):
    from quantity import Quantity
    us, vs = E.choice('pair', cfg['pairs'])
    u, v = C.unit(us), C.unit(vs)
    cls = u.qty_cls
    a = E.rational('a', cfg['flav'])
    q = Quantity(a, u)
    quantized = cls.quantum is not None
    if not quantized:
        E.check(q.amount == a, 'ctor-exact')
    src = q.amount
    r = q.convert(v)
    expected = src * C.scale(u) / C.scale(v)
    E.check(type(r) is cls, 'convert-class')
    E.check(r.unit is v, 'convert-unit')
    E.check(_exact_kind(E, r.amount), 'convert-exact-kind')
    E.check(r.amount == expected, 'convert-scale', info=[us, vs])
    E.observe('converted', r.amount)
    ea = q.equiv_amount(v)
    E.check(ea == expected, 'equiv-amount-scale', info=[us, vs])
    if not quantized:
        E.check(E.n_roundings() in (0, None), 'no-rounding-without-quantum')
    E.check(r == q, 'converted-equals-original')
    E.check(q == r, 'original-equals-converted')
    back = r.convert(u)
    E.check(back.unit is u, 'back-unit')
    E.check(back.amount == src, 'round-trip-identical')
    if cfg.get('canary'):
        E.check(r.amount != expected, 'canary-convert-scale')


def conv_with_converter(E, cfg):
    """a converter registered on a type that has a reference unit (a table with rounded factors, a function) is at
    most a fall-back: conversions between units of the type stay exact ratios of scales, while it is registered and
    after it was removed"""
    from decimalfp import Decimal
    from quantity import Quantity, TableConverter
    import quantity.predefined as pre
    kind = E.choice('converter', ['table-mapping', 'table-list', 'function'])
    cls, pairs, table = pre.Length, [('km', 'mi'), ('mi', 'km'), ('km', 'm'), ('m', 'mi'), ('in', 'km')], \
        [(pre.KILOMETRE, pre.MILE, Decimal('0.621371'), 0), (pre.METRE, pre.INCH, Decimal('39.37'), 0)]
    if kind == 'table-mapping':
        conv = TableConverter({(r[0], r[1]): (r[2], r[3]) for r in table})
    elif kind == 'table-list':
        conv = TableConverter(table)
    else:
        def conv(qty, to_unit):
            return qty.amount * Decimal('1.5')
    cls.register_converter(conv)
    a = E.rational('a', 'dec')
    us, vs = E.choice('pair', pairs)
    u, v = C.unit(us), C.unit(vs)

    def checks(tag):
        q = Quantity(a, u)
        r = q.convert(v)
        expected = a * C.scale(u) / C.scale(v)
        E.check(r.unit is v and r.amount == expected, 'convert-scale-with-registered-converter',
                key='converter-on-linear-type:convert' + tag, info=[kind, us, vs])
        E.check(q.equiv_amount(v) == expected, 'equiv-amount-with-registered-converter',
                key='converter-on-linear-type:equiv' + tag, info=[kind, us, vs])
        E.check(r == q and q == r, 'converted-equals-original-with-registered-converter',
                key='converter-on-linear-type:eq' + tag, info=[kind, us, vs])
        E.check(q.convert(pre.METRE).convert(v).amount == expected, 'via-metre-with-registered-converter',
                key='converter-on-linear-type:via' + tag, info=[kind, us, vs])
        E.check(r.convert(u).amount == a, 'round-trip-with-registered-converter',
                key='converter-on-linear-type:round-trip' + tag, info=[kind, us, vs])
    checks('')
    cls.remove_converter(conv)
    checks(':after-removal')
    E.check(E.n_roundings() in (0, None), 'no-rounding-without-quantum')


def conv_triple(E, cfg):
    from quantity import Quantity
    us, ws, vs = E.choice('triple', cfg['triples'])
    u, w, v = C.unit(us), C.unit(ws), C.unit(vs)
    a = E.rational('a', cfg['flav'])
    q = Quantity(a, u)
    direct = q.convert(v)
    via = q.convert(w).convert(v)
    E.check(via.unit is v, 'via-unit')
    E.check(via.amount == direct.amount, 'via-equals-direct', info=[us, ws, vs])
    E.check(direct.amount == q.amount * C.scale(u) / C.scale(v), 'direct-scale')
    E.check(via == q, 'via-equals-original')
    E.observe('via', via.amount)


def conv_cross(E, cfg):
    from quantity import Quantity, IncompatibleUnitsError
    us, vs = E.choice('pair', cfg['pairs'])
    u, v = C.unit(us), C.unit(vs)
    a = E.rational('a', 'dec')
    q = Quantity(a, u)
    try:
        r = q.convert(v)
    except IncompatibleUnitsError:
        E.ok('cross-type-raises')
    except Exception as e:
        E.fail('cross-type-raises', key='cross-type-wrong-exception:%s' % type(e).__name__,
               info=[us, vs])
    else:
        E.fail('cross-type-raises', key='cross-type-returns-value', info=[us, vs, repr(r)])
    try:
        ea = q.equiv_amount(v)
    except IncompatibleUnitsError:
        E.ok('cross-type-equiv-raises')
    except Exception as e:
        E.fail('cross-type-equiv-raises',
               key='cross-type-equiv-wrong-exception:%s' % type(e).__name__, info=[us, vs])
    else:
        E.fail('cross-type-equiv-raises', key='cross-type-equiv-returns-value', info=[us, vs])


# ---- user-declared chains (symbolic scale factors), built inside the path ----
def _prog_chain(E, f, g, h):
    """base type, scaled unit of a scaled unit of a scaled unit"""
    from quantity import Quantity
    X = _mk_cls('XLen', ref_unit_symbol='x0')
    x0 = X.ref_unit
    x1 = X.new_unit('x1', 'x one', f * x0)
    x2 = X.new_unit('x2', 'x two', g * x1)
    x3 = X.new_unit('x3', 'x three', h * x2)
    # units of a base type defined by an already normalised term with a plain Python int
    from quantity.term import Term
    x4 = X.new_unit('x4', None, Term(((7, 1), (x0, 1))))
    x5 = X.new_unit('x5', None, Term(((3, 1), (x0, 1))))
    x6 = X.new_unit('x6', None, Term(((3, -1), (x0, 1))))
    x7 = X.new_unit('x7', None, Term(((60, -1), (x4, 1))))
    S = {x0: 1, x1: f, x2: f * g, x3: f * g * h, x4: 7, x5: 3, x6: Fraction(1, 3), x7: Fraction(7, 60)}
    return X, [x0, x1, x2, x3, x4, x5, x6, x7], S


def _prog_derived(E, f, g, h):
    """derived type X**2 / Y with generated reference unit, derive_unit_from, term-defined"""
    from quantity import Quantity
    from quantity.term import Term
    X = _mk_cls('XLen', ref_unit_symbol='x0')
    Y = _mk_cls('YDur', ref_unit_symbol='y0')
    x0, y0 = X.ref_unit, Y.ref_unit
    x1 = X.new_unit('x1', None, f * x0)
    y1 = Y.new_unit('y1', None, g * y0)
    Z = _mk_cls('ZDer', define_as=X ** 2 / Y)
    z0 = Z.ref_unit
    z1 = Z.derive_unit_from(x1, y1)
    z2 = Z.new_unit('z2', None, Term(((x1, 2), (y0, -1))))
    z3 = Z.new_unit('z3', None, h * z1)
    z4 = Z.derive_unit_from(x0, y1, symbol='z4')
    S = {z0: 1, z1: f * f / g, z2: f * f, z3: h * f * f / g, z4: 1 / g}
    return Z, [z0, z1, z2, z3, z4], S


def _prog_term_mixed(E, f, g, h):
    """term-defined unit with a numeric element and nested derived units"""
    from quantity.term import Term
    X = _mk_cls('XLen', ref_unit_symbol='x0')
    Y = _mk_cls('YDur', ref_unit_symbol='y0')
    V = _mk_cls('VVel', define_as=X / Y)
    W = _mk_cls('WAcc', define_as=V / Y, ref_unit_symbol='w0')
    x0, y0, v0, w0 = X.ref_unit, Y.ref_unit, V.ref_unit, W.ref_unit
    x1 = X.new_unit('x1', None, f * x0)
    y1 = Y.new_unit('y1', None, g * y0)
    v1 = V.derive_unit_from(x1, y1)
    w1 = W.derive_unit_from(v1, y1)
    w2 = W.new_unit('w2', None, Term(((h, 1), (v1, 1), (y0, -1))))
    w3 = W.new_unit('w3', None, Term(((x1, 1), (y1, -2))))
    # three and more items with mutually convertible units and exponents != 1
    w4 = W.new_unit('w4', None, Term(((x1, 1), (y1, -1), (y0, -1))))
    w5 = W.new_unit('w5', None, Term(((x0, -1), (y0, -2), (x1, 2))))
    w6 = W.new_unit('w6', None, Term(((y1, 1), (x0, 1), (y0, -3))))
    # plain Python ints as numeric elements of an (already normalised) defining term
    w7 = W.new_unit('w7', None, Term(((7, 1), (w0, 1))))
    w8 = W.new_unit('w8', None, Term(((3, 1), (w0, 1))))
    S = {w0: 1, w1: f / g / g, w2: h * f / g, w3: f / g / g, w4: f / g, w5: f * f, w6: g, w7: 7, w8: 3}
    return W, [w0, w1, w2, w3, w4, w5, w6, w7, w8], S


def _prog_named(E, f, g, h):
    """units that share their descriptive name (US / imperial gallon) or have none; two-item terms written unit first,
    number second, with different exponents (square of the base type)"""
    from decimalfp import Decimal
    from quantity.term import Term
    X = _mk_cls('XLen', ref_unit_symbol='x0', ref_unit_name='Ell')
    x0 = X.ref_unit
    g1 = X.new_unit('gus', 'Gallon', f * x0)
    g2 = X.new_unit('gim', 'Gallon', h * x0)
    g3 = X.new_unit('gx', 'Ell', Decimal(5) * x0)              # the name of the reference unit again
    g4 = X.new_unit('gy', None, Term(((x0, 1), (Decimal(12), 1))))       # unit first, number second
    A = _mk_cls('XArea', define_as=X ** 2)
    a0 = A.ref_unit
    a1 = A.new_unit('xare', 'Are', Term(((x0, 2), (Decimal(100), 1))))   # exponents 2 and 1
    a2 = A.new_unit('xare2', 'Are', Term(((Decimal(100), 1), (x0, 2))))
    a3 = A.new_unit('xsq', None, Term(((g4, 2), (Decimal(3), -1))))      # 144 / 3
    a4 = A.new_unit('xsq2', None, Term(((x0, 2), (7, 3))))               # int with exponent 3 after the unit
    which = E.choice('type', ['length', 'area', 'per-length'])
    if which == 'length':
        # units declared with SI prefixes (exponents from the harness' own table)
        import quantity.si_prefixes as sp
        exps = {'KILO': 3, 'MILLI': -3, 'ZEPTO': -21, 'ZETTA': 21, 'YOCTO': -24, 'DECA': 1, 'ATTO': -18, 'EXA': 18}
        pu, ps = [], {}
        for nm, ex in sorted(exps.items()):
            u_ = X.new_unit('p' + nm.lower(), None, getattr(sp, nm) * x0)
            pu.append(u_)
            ps[u_] = Fraction(10) ** ex
        sel = pu[:4] if E.choice('prefix-half', [0, 1]) == 0 else pu[4:]
        S_ = {x0: 1, g1: f, g2: h, g3: 5, g4: 12}
        S_.update({u_: ps[u_] for u_ in sel})
        return X, [x0, g1, g2, g3, g4] + sel, S_
    if which == 'area':
        return A, [a0, a1, a2, a3, a4], {a0: 1, a1: 100, a2: 100, a3: 48, a4: 343}
    # units declared by the reciprocal of (normalised) definitions of other units
    R = _mk_cls('XPer', define_as=X ** -1)
    r0 = R.ref_unit
    r1 = R.new_unit('pgy', None, g4.definition.reciprocal())                 # 1 / (12 x0)
    r2 = R.new_unit('pgy2', None, g4.normalized_definition.reciprocal())
    r3 = R.new_unit('pgx', None, g3.definition.normalized().reciprocal())    # 1 / (5 x0)
    r4 = R.new_unit('pg1', None, 1 / g1.definition)                          # 1 / (f x0)
    r5 = R.new_unit('pgy3', None, Term(((g4, -1),)))
    return R, [r0, r1, r2, r3, r4, r5], {r0: 1, r1: Fraction(1, 12), r2: Fraction(1, 12), r3: Fraction(1, 5), r4: 1 / f,
                                          r5: Fraction(1, 12)}


USER_PROGRAMS = [_prog_chain, _prog_derived, _prog_term_mixed, _prog_named]


def _mk_cls(name, **kw):
    from quantity import Quantity, QuantityMeta
    return QuantityMeta(name, (Quantity,), {}, **kw)


def conv_user(E, cfg):
    from quantity import Quantity
    from decimalfp import Decimal
    # one scale factor symbolic at a time (products of several symbolic factors make
    # every directory comparison a non-linear query); the others are fixed rationals
    sym = cfg.get('symfac', 'f')
    f = E.rational('f', 'dec') if sym == 'f' else Decimal('2.54')
    g = E.rational('g', 'frac') if sym == 'g' else Fraction(22, 7)
    h = E.rational('h', 'dec') if sym == 'h' else Decimal('0.125')
    E.assume(E.And(f > 0, g > 0, h > 0))
    # factors must differ from 1 and from each other's products only where the
    # directory would merge units (DESIGN 3.2); the coinciding cases are concrete
    E.assume(E.And(f != 1, g != 1, h != 1))
    cls, units, S = USER_PROGRAMS[cfg['prog']](E, f, g, h)
    a = E.rational('a', cfg['flav'])
    idx = list(range(len(units)))
    i, j = E.choice('pair', [(i, j) for i in idx for j in idx])
    u, v = units[i], units[j]
    q = Quantity(a, u)
    E.check(type(q) is cls, 'user-class')
    r = q.convert(v)
    expected = a * S[u] / S[v]
    E.check(r.unit is v, 'user-convert-unit')
    E.check(r.amount == expected, 'user-convert-scale', info=[u.symbol, v.symbol])
    E.check(r.amount == a * C.scale(u) / C.scale(v), 'user-convert-scale-oracle')
    E.check(r == q, 'user-converted-equals-original')
    back = r.convert(u)
    E.check(back.amount == a, 'user-round-trip')
    k = E.choice('third', idx[:2] + idx[-2:])
    w = units[k]
    via = q.convert(w).convert(v)
    E.check(via.amount == r.amount, 'user-via-equals-direct')
    E.observe('converted', r.amount)
    if cfg.get('canary'):
        E.check(r.amount != expected, 'canary-user-scale')
