"""C12 -- converter registration is last-in-first-out and restores prior behaviour."""
from __future__ import annotations

import ast
import os
from fractions import Fraction

from . import common as C

PROPERTY = 'C12'
BUDGET = {'quick': 150, 'thorough': 900}
LAST_CONFIG_INFO = {}

META = {
    'bounds': ['histories over {register c, unregister c, enter c, leave top normally, leave top by exception, '
               'leave c (mis-nested), convert} with 3 money converters of distinct constant rates: all histories of '
               'length <= 3 (quick) / 4 (thorough); real nested with-statements of depth <= 3 left normally or by '
               'exception; generic type with 3 callable converters (one returning None for some pairs): histories of '
               'length <= 4 (quick) / 5 (thorough), also unobserved until their last step ("blind": money one step '
               'longer) and with converters mentioned as fresh bound methods / equal wrapper objects, these starting with the registration of the first converter',
               'inductive step (any history length): every stack content of length <= 4 over the 3 converters (121 '
               'states) installed directly, one operation with every argument applied, post-state compared with the '
               'reference stack; AST census of every use of `_converters` under src/quantity',
               'converted amount: unbounded rational'],
    'outside_bounds': ['more than 3 converters', 'threads'],
    'stubs': ['Decimal(x, precision) rounding contract (converted Money amounts)'],
    'assumptions': ['reference model: a plain Python list used as stack'],
}
META['bounds'].append('every state check also converts between two non-base currencies (cross rate of the top converter)')

RATES = ['1.1', '1.2', '1.3']
HKD_RATES = ['8.1', '8.2', None]
MONEY_OPS = [('reg', 0), ('reg', 1), ('reg', 2), ('unreg', 0), ('unreg', 1), ('unreg', 2),
             ('enter', 0), ('enter', 1), ('enter', 2), ('leave', None), ('leave-exc', None), ('convert', None)]


def setup(mode):
    C.import_catalogue()
    import quantity.money  # noqa: F401


def jobs(tier, seed):
    out = []
    depth = 3 if tier == 'quick' else 4
    for first in range(len(MONEY_OPS)):
        out.append({'fn': 'money_history', 'cfg': {'first': first, 'depth': depth}})
        if MONEY_OPS[first] in (('reg', 0), ('enter', 0)):
            out.append({'fn': 'money_history', 'cfg': {'first': first, 'depth': depth + 1, 'blind': True}})
    stacks = [[]]
    for n in range(1, 5):
        stacks += [list(t) for t in _tuples(3, n)]
    for ch in C.chunks(stacks, 12):
        out.append({'fn': 'money_step', 'cfg': {'stacks': ch}})
    out.append({'fn': 'with_blocks', 'cfg': {}})
    gdepth = 4 if tier == 'quick' else 5
    for first in range(len(GEN_OPS)):
        out.append({'fn': 'generic_history', 'cfg': {'first': first, 'depth': gdepth}})
        if GEN_OPS[first] == ('reg', 0):
            # the same histories unobserved until the end; converters mentioned as bound methods / equal wrappers
            out.append({'fn': 'generic_history', 'cfg': {'first': first, 'depth': gdepth, 'blind': True}})
            out.append({'fn': 'generic_history', 'cfg': {'first': first, 'depth': gdepth, 'kind': 'method'}})
            out.append({'fn': 'generic_history', 'cfg': {'first': first, 'depth': gdepth, 'kind': 'eq-callable'}})
    out.append({'fn': 'census', 'cfg': {}})
    out.append({'fn': 'money_history', 'cfg': {'first': 0, 'depth': 2, 'canary': True}, 'canary': True})
    LAST_CONFIG_INFO.clear()
    LAST_CONFIG_INFO.update({'money_histories': sum(len(MONEY_OPS) ** k for k in range(1, depth + 1)),
                             'inductive_states': len(stacks), 'generic_histories': sum(len(GEN_OPS) ** k for k in range(1, gdepth + 1)),
                             'exhaustive': True})
    return out


def _tuples(k, n):
    if n == 0:
        yield ()
        return
    for t in _tuples(k, n - 1):
        for i in range(k):
            yield t + (i,)


def _setup_money():
    from decimalfp import Decimal
    from quantity.money import Money, MoneyConverter
    eur, usd = Money.register_currency('EUR'), Money.register_currency('USD')
    hkd = Money.register_currency('HKD')
    convs = []
    for i, r in enumerate(RATES):
        c = MoneyConverter(eur)
        c.update(None, [(usd, Decimal(r), 1)])
        if i != 2:
            c.update(None, [(hkd, Decimal(HKD_RATES[i]), 1)])      # converter 2 has no HKD rate
        convs.append(c)
    return Money, eur, usd, convs


def _check_list(E, Money, convs, ref, tag):
    real = list(Money.registered_converters())
    E.check(len(real) == len(ref) and all(x is convs[i] for x, i in zip(real, reversed(ref))),
            'converter-list-matches-reference-stack', key='money:list-' + tag,
            info=[[convs.index(x) if x in convs else '?' for x in real], list(reversed(ref))])


def _check_state(E, Money, convs, ref, a, eur, usd, tag, list_first=True):
    """real converter list and conversion behaviour agree with the reference stack"""
    if list_first:
        _check_list(E, Money, convs, ref, tag)
    _check_conversions(E, Money, convs, ref, a, eur, usd, tag)
    if not list_first:
        _check_list(E, Money, convs, ref, tag)


def _check_conversions(E, Money, convs, ref, a, eur, usd, tag):
    from decimalfp import get_dflt_rounding_mode
    from quantity import UnitConversionError
    m = Money(a, eur)
    if not ref:
        C.expect_raises(E, lambda: m.convert(usd), UnitConversionError, 'no-converter-conversion-raises')
        return
    try:
        r = m.convert(usd)
    except Exception as e:
        E.fail('conversion-uses-top-converter', key='money:convert-raises-%s-%s' % (type(e).__name__, tag))
        return
    q = Fraction(1, 100)
    E.check(r.unit is usd and E.is_rounding(get_dflt_rounding_mode(), r.amount / q, m.amount * Fraction(RATES[ref[-1]]) / q),
            'conversion-uses-top-converter', key='money:convert-' + tag, info=[ref])
    # a pair the top converter may not know: only the most recent converter decides (no fall-through)
    from quantity.money import Money as _M
    hkd = _M.register_currency('HKD')
    top_rate = HKD_RATES[ref[-1]]
    if top_rate is None:
        C.expect_raises(E, lambda: m.convert(hkd), UnitConversionError, 'top-converter-without-rate-raises', [list(ref)])
    else:
        rh = m.convert(hkd)
        E.check(rh.unit is hkd and E.is_rounding(get_dflt_rounding_mode(), rh.amount / q, m.amount * Fraction(top_rate) / q),
                'conversion-of-second-pair-uses-top-converter', key='money:convert-hkd-' + tag, info=[ref])
        # neither currency is the converter's base: the cross rate of the top converter (quotient of its base rates
        # in normal form: six decimals at the multiple that brings the amount to at least 0.1)
        mu = Money(a, usd)
        ru = mu.convert(hkd)
        cross = Fraction(top_rate) / Fraction(RATES[ref[-1]])
        k = 0
        while cross * 10 ** k < Fraction(1, 10):
            k += 1
        cross = Fraction(round(cross * 10 ** (k + 6)), 10 ** (k + 6))
        E.check(ru.unit is hkd and E.is_rounding(get_dflt_rounding_mode(), ru.amount / q, mu.amount * cross / q),
                'cross-conversion-uses-top-converter', key='money:convert-cross-' + tag, info=[ref])


def _apply_money_op(E, Money, convs, ref, op, arg):
    """apply op to the real registry and to the reference stack"""
    if op == 'reg':
        Money.register_converter(convs[arg])
        ref.append(arg)
    elif op == 'enter':
        r = convs[arg].__enter__()
        E.check(r is convs[arg], 'enter-returns-converter')
        ref.append(arg)
    elif op in ('unreg', 'leave-c', 'leave-c-exc'):
        err = RuntimeError('boom')
        fn = (lambda: Money.remove_converter(convs[arg])) if op == 'unreg' else \
            (lambda: convs[arg].__exit__(None, None, None)) if op == 'leave-c' else \
            (lambda: convs[arg].__exit__(RuntimeError, err, None))
        if ref and ref[-1] == arg:
            try:
                fn()
            except Exception as e:
                E.fail('unregister-top-succeeds', key='money:unregister-top-raises-%s' % type(e).__name__)
            else:
                ref.pop()
        else:
            try:
                fn()
            except Exception:
                E.ok('unregister-non-top-raises')
            else:
                E.fail('unregister-non-top-raises', key='money:unregister-non-top-accepted', info=[list(ref), arg])
    elif op in ('leave', 'leave-exc'):
        if not ref:
            return
        top = convs[ref[-1]]
        if op == 'leave':
            res = top.__exit__(None, None, None)
        else:
            err = RuntimeError('boom')
            res = top.__exit__(RuntimeError, err, None)
        E.check(not res, 'exit-does-not-swallow-exceptions', key='money:exit-swallows')
        ref.pop()


def money_history(E, cfg):
    Money, eur, usd, convs = _setup_money()
    a = E.rational('a', 'dec')
    ref = []
    E.check(len(list(Money.registered_converters())) == 0, 'initially-no-converter')
    ops = MONEY_OPS + [('leave-c', 0), ('leave-c', 1), ('leave-c-exc', 0), ('leave-c-exc', 1)]
    if cfg.get('blind'):
        ops = [('reg', 0), ('reg', 1), ('enter', 0), ('enter', 1), ('unreg', 0), ('unreg', 1), ('leave', None),
               ('leave-exc', None), ('convert', None)]
    # blind: nothing is observed between the operations (a look-up in between could refresh derived state)
    blind = cfg.get('blind', False)
    for step in range(cfg['depth']):
        if step == 0:
            op, arg = MONEY_OPS[cfg['first']]
        else:
            op, arg = E.choice('op%d' % step, ops)
        if op != 'convert':
            _apply_money_op(E, Money, convs, ref, op, arg)
        elif blind:
            _check_conversions(E, Money, convs, ref, a, eur, usd, 'history-blind')      # a look-up, but not of the list
        stop = E.choice('stop%d' % step, [False, True]) if step < cfg['depth'] - 1 else True
        if not blind or stop:
            _check_state(E, Money, convs, ref, a, eur, usd, 'history-blind' if blind else 'history',
                         list_first=not blind)
        if stop:
            break
    # unwind everything: behaviour as before the first registration
    for _ in range(len(ref)):
        _apply_money_op(E, Money, convs, ref, 'unreg', ref[-1])
    _check_state(E, Money, convs, ref, a, eur, usd, 'unwound')
    if cfg.get('canary'):
        E.check(len(list(Money.registered_converters())) == 1, 'canary-one-left')


def money_step(E, cfg):
    """inductive step from an arbitrary installed stack"""
    Money, eur, usd, convs = _setup_money()
    a = E.rational('a', 'dec')
    stack = E.choice('stack', cfg['stacks'])
    Money._converters[:] = [convs[i] for i in stack]
    ref = list(stack)
    _check_state(E, Money, convs, ref, a, eur, usd, 'installed')
    ops = MONEY_OPS + [('leave-c', 0), ('leave-c', 1), ('leave-c', 2), ('leave-c-exc', 0), ('leave-c-exc', 1),
                       ('leave-c-exc', 2)]
    op, arg = E.choice('op', ops)
    before = list(ref)
    if op != 'convert':
        _apply_money_op(E, Money, convs, ref, op, arg)
    _check_state(E, Money, convs, ref, a, eur, usd, 'step')
    E.observe('stack', [before, op, arg, list(ref)])


def with_blocks(E, cfg):
    """real with statements, nested up to depth 3, left normally or by exception"""
    Money, eur, usd, convs = _setup_money()
    a = E.rational('a', 'dec')
    shapes = []
    for depth in (1, 2, 3):
        for order in _tuples(3, depth):
            for exc_at in [None] + list(range(depth)):
                shapes.append((list(order), exc_at))
    order, exc_at = E.choice('shape', shapes)
    ref = []

    class Boom(Exception):
        pass

    def nest(i):
        if i == len(order):
            _check_state(E, Money, convs, ref, a, eur, usd, 'innermost')
            return
        with convs[order[i]] as c:
            ref.append(order[i])
            E.check(c is convs[order[i]], 'with-binds-converter')
            _check_state(E, Money, convs, ref, a, eur, usd, 'inside-with')
            try:
                nest(i + 1)
                if exc_at == i:
                    raise Boom()
            finally:
                ref.pop()
        _check_state(E, Money, convs, ref, a, eur, usd, 'after-inner-with')

    try:
        nest(0)
    except Boom:
        E.ok('exception-propagates-out-of-with')
    _check_state(E, Money, convs, [], a, eur, usd, 'after-all-blocks')


# ---------------------------------------------------------------- generic type
GEN_OPS = [('reg', 0), ('reg', 1), ('reg', 2), ('rem', 0), ('rem', 1), ('rem', 2), ('convert', None)]
FACTORS = [Fraction(2), Fraction(3), Fraction(5)]


class _Getter:
    """convs[i] -> the converter as the caller would mention it (a fresh bound method object each time for kind
    'method': `obj.convert` is equal to, but not identical with, an earlier `obj.convert`)"""

    def __init__(self, items, attr=None):
        self.items, self.attr = items, attr

    def __getitem__(self, i):
        return getattr(self.items[i], self.attr) if self.attr else self.items[i]

    def index_of(self, x):
        for i in range(len(self.items)):
            if x == self[i]:
                return i
        return '?'


def _setup_generic(kind='function'):
    T = C.mk_cls('GScale')
    ua, ub, uc = T.new_unit('ga'), T.new_unit('gb'), T.new_unit('gc')

    def body(i, qty, to_unit):
        if i == 2 and (qty.unit is ua or to_unit is ua):
            return None                    # converter 2 does not know unit ga
        if qty.unit is to_unit:
            return qty.amount
        return qty.amount * FACTORS[i]

    def mk(i):
        def conv(qty, to_unit):
            return body(i, qty, to_unit)
        conv.__name__ = 'conv%d' % i
        return conv

    class Table:
        def __init__(self, i):
            self.i = i

        def convert(self, qty, to_unit):
            return body(self.i, qty, to_unit)

    class EqCallable:
        """a callable wrapper comparing by what it wraps; every mention builds a new wrapper"""

        def __init__(self, i):
            self.i = i

        def __call__(self, qty, to_unit):
            return body(self.i, qty, to_unit)

        def __eq__(self, other):
            return isinstance(other, EqCallable) and other.i == self.i

        def __hash__(self):
            return hash(self.i)

    class Fresh:
        def __getitem__(self, i):
            return EqCallable(i)

        def index_of(self, x):
            return getattr(x, 'i', '?')

    if kind == 'function':
        convs = _Getter([mk(0), mk(1), mk(2)])
    elif kind == 'method':
        convs = _Getter([Table(0), Table(1), Table(2)], 'convert')
    else:
        convs = Fresh()
    return T, (ua, ub, uc), convs


def _check_generic_list(E, T, convs, ref, tag, kind):
    real = list(T.registered_converters())
    same = (lambda x, y: x is y) if kind == 'function' else (lambda x, y: x == y)
    E.check(len(real) == len(ref) and all(same(x, convs[i]) for x, i in zip(real, reversed(ref))),
            'generic-converter-list-matches-reference', key='generic:list-' + tag,
            info=[[convs.index_of(x) for x in real], list(reversed(ref)), kind])


def _check_generic(E, T, units, convs, ref, a, tag, kind='function', list_first=True):
    from quantity import Quantity, UnitConversionError
    ua, ub, uc = units
    if list_first:
        _check_generic_list(E, T, convs, ref, tag, kind)
    for (src, dst) in ((ua, ub), (ub, uc)):
        q = Quantity(a, src)
        expected = None
        for i in reversed(ref):
            if i == 2 and (src is ua or dst is ua):
                continue
            expected = FACTORS[i]
            break
        if expected is None:
            C.expect_raises(E, lambda: q.convert(dst), UnitConversionError, 'generic-no-applicable-converter-raises',
                            [list(ref)])
        else:
            try:
                r = q.convert(dst)
            except Exception as e:
                E.fail('generic-first-non-none-most-recent-first', key='generic:convert-raises-%s' % type(e).__name__,
                       info=[list(ref)])
                continue
            E.check(r.unit is dst and r.amount == a * expected, 'generic-first-non-none-most-recent-first',
                    key='generic:convert-' + tag, info=[list(ref), kind])
    if list_first is False:
        _check_generic_list(E, T, convs, ref, tag, kind)


def generic_history(E, cfg):
    kind = cfg.get('kind', 'function')
    blind = cfg.get('blind', False)
    T, units, convs = _setup_generic(kind)
    a = E.rational('a', 'dec')
    ref = []
    for step in range(cfg['depth']):
        op, arg = GEN_OPS[cfg['first']] if step == 0 else E.choice('op%d' % step, GEN_OPS)
        if op == 'reg':
            T.register_converter(convs[arg])
            if arg not in ref:                 # registering again has no effect
                ref.append(arg)
        elif op == 'rem':
            if arg in ref:
                try:
                    T.remove_converter(convs[arg])
                except Exception as e:
                    E.fail('generic-remove-registered', key='generic:remove-raises-%s' % type(e).__name__)
                else:
                    ref.remove(arg)
            else:
                C.expect_raises(E, lambda: T.remove_converter(convs[arg]), ValueError, 'generic-remove-absent-raises')
        elif op == 'convert' and blind:
            _check_generic(E, T, units, convs, ref, a, 'history-blind', kind, list_first=None)
        stop = E.choice('stop%d' % step, [False, True]) if step < cfg['depth'] - 1 else True
        if not blind or stop:
            _check_generic(E, T, units, convs, ref, a, 'history-blind' if blind else 'history', kind,
                           list_first=not blind)
        if stop:
            break
    # remove everything: behaviour as before the first registration
    for i in list(reversed(ref)):
        try:
            T.remove_converter(convs[i])
        except Exception as e:
            E.fail('generic-remove-registered', key='generic:unwind-remove-raises-%s' % type(e).__name__)
        ref.remove(i)
    _check_generic(E, T, units, convs, ref, a, 'unwound', kind)


def census(E, cfg):
    """every use of `_converters` in the sources is inside one of the registration methods"""
    import quantity
    root = os.path.dirname(quantity.__file__)
    found = set()
    for dirpath, _, files in os.walk(root):
        for fn in files:
            if not fn.endswith('.py'):
                continue
            path = os.path.join(dirpath, fn)
            tree = ast.parse(open(path, encoding='utf-8').read())
            for cls in [n for n in ast.walk(tree) if isinstance(n, ast.ClassDef)]:
                for f in [n for n in cls.body if isinstance(n, ast.FunctionDef)]:
                    for n in ast.walk(f):
                        if isinstance(n, ast.Attribute) and n.attr == '_converters':
                            found.add('%s:%s.%s' % (os.path.relpath(path, root), cls.name, f.name))
            for n in ast.walk(tree):
                if isinstance(n, ast.Attribute) and n.attr == '_converters':
                    pass
            n_all = sum(1 for n in ast.walk(tree) if isinstance(n, ast.Attribute) and n.attr == '_converters')
            n_in = sum(1 for cls in ast.walk(tree) if isinstance(cls, ast.ClassDef)
                       for f in cls.body if isinstance(f, ast.FunctionDef)
                       for n in ast.walk(f) if isinstance(n, ast.Attribute) and n.attr == '_converters')
            E.check(n_all == n_in, 'converter-list-only-used-inside-methods', key='census:outside-method:' + fn)
    expected = {'__init__.py:QuantityMeta.__init__', '__init__.py:QuantityMeta.register_converter',
                '__init__.py:QuantityMeta.remove_converter', '__init__.py:QuantityMeta.registered_converters',
                'money/__init__.py:MoneyMeta.register_converter', 'money/__init__.py:MoneyMeta.remove_converter'}
    E.check(found == expected, 'converter-list-touched-only-by-registration-methods', key='census:functions',
            info=sorted(found ^ expected))
