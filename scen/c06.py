"""C06 -- allocation conserves the total and deviates by less than one quantum."""
from __future__ import annotations

from fractions import Fraction

from . import common as C

PROPERTY = 'C06'
BUDGET = {'quick': 200, 'thorough': 1500}
GLOBAL_BUDGET = {'quick': 480, 'thorough': 4200}
LAST_CONFIG_INFO = {}

META = {
    'bounds': ['slice A: ratios r_1..r_n symbolic positive rationals with sum 1 (WLOG by homogeneity of ratio/total; '
               'un-normalised totals for n <= 2), n <= 3 (quick) / 4 (thorough), with a concrete amount from a boundary '
               'set; slice B: amount symbolic on the grid (k * quantum, k unbounded integer) resp. unbounded rational for '
               'types without quantum, with concrete ratio vectors (integers, decimals, fractions, quantities of one '
               'type in mixed units)',
               'disperse_rounding_error in {True, False}; default rounding modes (quick 3, thorough 8); receivers: '
               'DataVolume (kB, b), Money (EUR, JPY), user type with quantum 1/3 and Mass (no quantum)'],
    'outside_bounds': ['n > 4', 'amount and ratios symbolic simultaneously', 'non-positive ratios, empty ratio list'],
    'stubs': ['Decimal(x, 0) rounding contract', 'Decimal(total): exactly representable or ValueError (both explored)'],
    'assumptions': ['exact share oracle: amount * r_i / sum(r)'],
}
META['bounds'].append('concrete sequences (enumeration, no solver): ratios list changed in place / extended between two calls, quantized quantity ratios (pieces, yen, bytes) x 3 receivers x 3 modes')
META['bounds'].append('concrete sequences: money ratios in two currencies under a registered converter (3 vectors)')
META['bounds'].append('concrete sequences: ratios whose total has no finite decimal expansion (5 vectors)')

VECTORS = [['1', '1', '1'], ['38', '5', '2', '15'], ['1', '2'], ['0.3', '0.7'], ['1/3', '1/3', '1/3'],
           ['5'], ['1', '1', '1', '1', '2'], ['7', '3', '2'], ['0.5', '0.25', '0.125'], ['2', '3', '5', '7']]
QVECTORS = [[['1', 'kg'], ['500', 'g'], ['2', 'lb']], [['3', 'm'], ['1', 'ft']], [['1', 'h'], ['30', 'min'], ['15', 'min']]]
AMOUNTS = {'user6': ['60', '-36', '6'], 'dv': ['10', '0', '0.125', '-10', '7/8', '1000001'], 'money': ['0.01', '100', '-0.05', '33.33', '0'],
           'user': ['1', '10/3', '-7'], 'mass': ['1', '-2.5', '1/7']}


def setup(mode):
    C.import_catalogue()
    import quantity.money  # noqa: F401


def jobs(tier, seed):
    rng = C.rng_for(seed, 'c06')
    out = []
    modes = C.MODES if tier == 'thorough' else ['ROUND_HALF_EVEN', 'ROUND_FLOOR', 'ROUND_HALF_UP']
    nmax = 3 if tier == 'quick' else 4
    i = 0
    for recv in ('dv', 'money', 'user', 'user6', 'mass'):
        for n in range(1, nmax + 1):
            for disperse in (True, False):
                for amt in (AMOUNTS[recv] if tier == 'thorough' else AMOUNTS[recv][:3]):
                    m = modes[i % len(modes)]
                    i += 1
                    out.append({'fn': 'ratios_sym', 'cfg': {'recv': recv, 'n': n, 'disperse': disperse, 'amount': amt,
                                                            'mode': m, 'flav': 'frac' if i % 2 else 'dec'},
                                'opts': {'linearise': True, 'feas_ms': 1000}})
    # n = 4 (quick) / 5 (thorough) with dispersal under the half modes: the sort of the rounding errors matters
    # (amounts with an odd number of quanta: under half-even the tie directions then differ between portions)
    for recv, amt in (('money', '0.99'), ('dv', '0.999875'), ('user', '11/3')):
        for hm in ('ROUND_HALF_UP', 'ROUND_HALF_EVEN', 'ROUND_HALF_DOWN'):
            out.append({'fn': 'ratios_sym', 'cfg': {'recv': recv, 'n': 4 if tier == 'quick' else 5, 'disperse': True,
                                                    'amount': amt if hm != 'ROUND_HALF_DOWN' else '-' + amt, 'mode': hm, 'flav': 'frac'},
                        'opts': {'linearise': True, 'feas_ms': 1000, 'budget_s': 170 if tier == 'quick' else 1500}})
    for recv in ('dv', 'money'):
        for amt in AMOUNTS[recv][:2]:
            out.append({'fn': 'ratios_sym', 'cfg': {'recv': recv, 'n': 2, 'disperse': True, 'amount': amt,
                                                    'mode': 'ROUND_HALF_EVEN', 'flav': 'dec', 'unnormalised': True},
                        'opts': {'linearise': True, 'feas_ms': 1000}})
    j = 0
    for recv in ('dv', 'money', 'user', 'user6', 'mass'):
        for vec in VECTORS:
            n = len(vec)
            if tier == 'quick':
                # the amount-symbolic slice is the expensive one (mixed integer / real, ~2 min per n = 3 job):
                # quick keeps n <= 2 everywhere and n = 3 for one vector on DataVolume and Money
                if n > 3 or (n == 3 and not (vec == ['1', '1', '1'] and recv in ('dv', 'money'))):
                    if recv != 'mass':
                        continue
            else:
                # thorough: n = 3 on three receivers, one n = 4 vector on DataVolume (about 20 min), no n = 5
                if n > 4:
                    continue
                if n == 4 and not (recv == 'dv' and vec == ['38', '5', '2', '15']) and recv != 'mass':
                    continue
                if n == 3 and recv in ('user6',) and vec != ['1', '1', '1']:
                    continue
            for disperse in ((True, False) if (tier == 'thorough' or j % 3 == 0) else (True,)):
                out.append({'fn': 'amount_sym', 'cfg': {'recv': recv, 'ratios': vec, 'disperse': disperse,
                                                        'mode': modes[j % len(modes)]},
                            'opts': {'feas_ms': 1000, 'budget_s': 170 if tier == 'quick' else 2400}})
                j += 1
    for qv in QVECTORS:
        if tier == 'thorough':
            out.append({'fn': 'amount_sym', 'cfg': {'recv': 'dv', 'qratios': qv, 'disperse': True, 'mode': 'ROUND_HALF_EVEN'},
                        'opts': {'feas_ms': 1000, 'budget_s': 1200}})
        out.append({'fn': 'amount_sym', 'cfg': {'recv': 'mass', 'qratios': qv, 'disperse': True, 'mode': 'ROUND_HALF_EVEN'},
                    'opts': {'feas_ms': 1000}})
    out.append({'fn': 'amount_sym', 'cfg': {'recv': 'dv', 'qratios': QVECTORS[1], 'disperse': True, 'mode': 'ROUND_HALF_EVEN'},
                'opts': {'feas_ms': 1000}})
    for recv, amt in (('user', '2'), ('money', '2'), ('dv', '0.00025')):
        for n in (2,):
            out.append({'fn': 'mode_switch', 'cfg': {'recv': recv, 'n': n, 'amount': amt},
                        'opts': {'linearise': True, 'feas_ms': 1000}})
    out.append({'fn': 'bad_ratios', 'cfg': {}})
    out.append({'fn': 'concrete_sequences', 'cfg': {}})
    out.append({'fn': 'ratios_sym', 'cfg': {'recv': 'dv', 'n': 2, 'disperse': True, 'amount': '10', 'mode': 'ROUND_HALF_EVEN',
                                            'flav': 'frac', 'canary': True}, 'opts': {'linearise': True}, 'canary': True})
    LAST_CONFIG_INFO.clear()
    LAST_CONFIG_INFO.update({'slice_A_jobs': sum(1 for o in out if o['fn'] == 'ratios_sym'),
                             'slice_B_jobs': sum(1 for o in out if o['fn'] == 'amount_sym'),
                             'n_max': nmax, 'modes': len(modes), 'exhaustive': False})
    return out


def _receiver(E, recv):
    """-> (cls, unit, quantum in that unit or None)"""
    import quantity.predefined as pre
    if recv == 'dv':
        return pre.DataVolume, pre.KILOBYTE, Fraction(1, 8000)
    if recv == 'money':
        from quantity.money import Money
        eur = Money.register_currency('EUR')
        return Money, eur, Fraction(1, 100)
    if recv == 'user':
        cls = C.mk_cls('QA', ref_unit_symbol='qa0', quantum=Fraction(1, 3))
        return cls, cls.ref_unit, Fraction(1, 3)
    if recv == 'user6':
        cls = C.mk_cls('QB', ref_unit_symbol='qb0', quantum=6)
        return cls, cls.ref_unit, Fraction(6)
    return pre.Mass, pre.POUND, None


def _obligations(E, q, amount_before, ratios_exact, portions, remainder, quantum, disperse, mode_name, cls, unit, info):
    n = len(portions)
    total = sum(ratios_exact)
    E.check(len(portions) == n and all(type(p) is cls and p.unit is unit for p in portions), 'portions-class-unit',
            key='alloc:portions-class-unit', info=info)
    E.check(type(remainder) is cls and remainder.unit is unit, 'remainder-class-unit', key='alloc:remainder-class-unit',
            info=info)
    E.check(q.amount is amount_before or q.amount == amount_before, 'original-unchanged', key='alloc:original-changed',
            info=info)
    s = remainder.amount
    for p in portions:
        s = s + p.amount
    E.check(s == amount_before, 'portions-plus-remainder-equal-original', key='alloc:conservation', info=info)
    for i, p in enumerate(portions):
        share = amount_before * ratios_exact[i] / total
        if quantum is None:
            E.check(p.amount == share, 'portion-is-exact-share', key='alloc:exact-share', info=info)
        else:
            E.check(E.is_int(p.amount / quantum), 'portion-on-grid', key='alloc:portion-grid', info=info)
            d = p.amount - share
            E.check(E.And(d < quantum, -quantum < d), 'portion-within-one-quantum-of-share',
                    key='alloc:portion-deviation', info=info)
    if quantum is None:
        E.check(remainder.amount == 0, 'remainder-zero-without-quantum', key='alloc:remainder-no-quantum', info=info)
    elif disperse:
        E.check(remainder.amount == 0, 'remainder-zero-when-dispersed', key='alloc:remainder-dispersed', info=info)
    else:
        half = mode_name in ('ROUND_HALF_EVEN', 'ROUND_HALF_UP', 'ROUND_HALF_DOWN')
        bound = quantum * n / 2 if half else quantum * n
        r = remainder.amount
        if half:
            E.check(E.And(r <= bound, -bound <= r), 'remainder-bounded-half-quantum-per-portion',
                    key='alloc:remainder-bound', info=info)
        else:
            E.check(E.And(r < bound, -bound < r), 'remainder-bounded-one-quantum-per-portion',
                    key='alloc:remainder-bound', info=info)


def ratios_sym(E, cfg):
    C.set_default_mode(cfg['mode'])
    cls, unit, quantum = _receiver(E, cfg['recv'])
    n = cfg['n']
    q = cls(C.num(cfg['amount']), unit)
    amount_before = q.amount
    rs = [E.rational('r%d' % i, cfg['flav']) for i in range(n)]
    E.assume(E.And(*[r > 0 for r in rs]))
    tot = rs[0]
    for r in rs[1:]:
        tot = tot + r
    if cfg.get('unnormalised'):
        E.assume(E.And(tot <= 1000, tot >= Fraction(1, 1000)))
    else:
        E.assume(tot == 1)
    portions, remainder = q.allocate(list(rs), cfg['disperse'])
    _obligations(E, q, amount_before, [E.exact(r) for r in rs], portions, remainder, quantum, cfg['disperse'],
                 cfg['mode'], cls, unit, cfg)
    E.observe('portions', [p.amount for p in portions])
    E.observe('remainder', remainder.amount)
    if cfg.get('canary'):
        E.check(portions[0].amount == q.amount * rs[0], 'canary-portion-unrounded')


def amount_sym(E, cfg):
    from quantity import Quantity
    C.set_default_mode(cfg['mode'])
    cls, unit, quantum = _receiver(E, cfg['recv'])
    if quantum is not None:
        k = E.integer('k')
        amount = k * C.num(str(quantum))         # on the grid: SymInt * concrete
    else:
        amount = E.rational('a', 'dec')
    q = cls(amount, unit)
    amount_before = q.amount
    if 'qratios' in cfg:
        ratios = [Quantity(C.num(v), C.unit(u)) for v, u in cfg['qratios']]
        exact = [Fraction(v) * C.scale(C.unit(u)) for v, u in cfg['qratios']]
    else:
        ratios = [C.num(v) for v in cfg['ratios']]
        ratios = [int(r) if Fraction(r).denominator == 1 and i % 2 == 0 else r for i, r in enumerate(ratios)]
        exact = [Fraction(v) for v in cfg['ratios']]
    portions, remainder = q.allocate(ratios, cfg['disperse'])
    _obligations(E, q, amount_before, exact, portions, remainder, quantum, cfg['disperse'], cfg['mode'], cls, unit, cfg)
    E.observe('portions', [p.amount for p in portions])


def concrete_sequences(E, cfg):
    """concrete allocations in sequences: the same ratios object changed in place between two calls; ratios given as
    quantities of a quantized type (pieces, yen, bytes); tuples and generators-turned-lists"""
    from decimalfp import Decimal
    from quantity import Quantity
    import quantity.predefined as pre
    from quantity.money import Money
    mode = E.choice('mode', ['ROUND_HALF_EVEN', 'ROUND_HALF_UP', 'ROUND_FLOOR'])
    C.set_default_mode(mode)
    case = E.choice('case', ['same-list-changed', 'same-list-extended', 'quantized-ratios-pieces', 'quantized-ratios-yen',
                             'quantized-ratios-bytes', 'money-ratios-two-currencies', 'fraction-ratios'])
    recv = E.choice('recv', ['money', 'dv', 'mass'])
    cls, unit, quantum = _receiver(E, recv)
    amounts = {'money': ['12.70', '100', '0.07'], 'dv': ['10', '0.125'], 'mass': ['10', '1/7']}[recv]
    amt = E.choice('amount', amounts)
    q = cls(C.num(amt), unit)
    before = q.amount
    info = [mode, case, recv, amt]
    if case.startswith('same-list'):
        key = [1, 1]
        portions, rem = q.allocate(key)
        _obligations(E, q, before, [Fraction(1), Fraction(1)], portions, rem, quantum, True, mode, cls, unit, info + ['first'])
        if case == 'same-list-changed':
            key[1] = 3
        else:
            key.append(4)
        portions, rem = q.allocate(key)
        E.check(len(portions) == len(key), 'one-portion-per-ratio', key='alloc-seq:portion-count', info=info)
        _obligations(E, q, before, [Fraction(k) for k in key], portions, rem, quantum, True, mode, cls, unit, info + ['second'])
        portions, rem = q.allocate(tuple(key), False)
        _obligations(E, q, before, [Fraction(k) for k in key], portions, rem, quantum, False, mode, cls, unit, info + ['tuple'])
        return
    if case == 'fraction-ratios':
        # ratios whose total has no finite decimal expansion
        vecs = [[Fraction(1, 3), Fraction(1, 7)], [Fraction(1, 3), Decimal('0.5'), 2], [Fraction(2, 7)], [Fraction(1, 9)] * 4,
                [Fraction(1, 3), Fraction(2, 3)]]
        vec = E.choice('ratios', vecs)
        for disperse in (True, False):
            try:
                portions, rem = q.allocate(list(vec), disperse)
            except Exception as e:
                E.fail('allocation-by-fraction-ratios', key='alloc-seq:fraction-ratios:%s' % type(e).__name__, info=info + [str(vec)])
                continue
            _obligations(E, q, before, [Fraction(v) for v in vec], portions, rem, quantum, disperse, mode, cls, unit,
                         info + [[str(v) for v in vec], disperse])
        return
    if case == 'money-ratios-two-currencies':
        # ratios in two currencies, made comparable by a registered money converter (1 EUR = 1.25 USD)
        from quantity.money import MoneyConverter
        eur, usd = Money.register_currency('EUR'), Money.register_currency('USD')
        conv = MoneyConverter(eur)
        conv.update(None, [(usd, Decimal('1.25'), 1)])
        vecs = [[('10.01', 'EUR'), ('5', 'USD')], [('5', 'USD'), ('10.01', 'EUR')], [('1', 'EUR'), ('1', 'USD'), ('2.50', 'EUR')]]
        vec = E.choice('ratios', vecs)
        in_eur = [Fraction(v) if c == 'EUR' else Fraction(v) / Fraction('1.25') for v, c in vec]
        with conv:
            for disperse in (True, False):
                portions, rem = q.allocate([Money(Decimal(v), eur if c == 'EUR' else usd) for v, c in vec], disperse)
                _obligations(E, q, before, in_eur, portions, rem, quantum, disperse, mode, cls, unit, info + [vec, disperse])
        return
    if case == 'quantized-ratios-pieces':
        P = C.mk_cls('Pieces', ref_unit_symbol='pcs', quantum=1)
        vecs = [[3, 1, 12, 3], [1, 1, 1], [2, 5], [1, 2, 3, 4, 5]]
        mk = lambda n: P(n, P.ref_unit)
    elif case == 'quantized-ratios-yen':
        jpy = Money.register_currency('JPY')
        vecs = [[3, 1, 12, 3], [7, 11, 13], [1, 1]]
        mk = lambda n: Money(n, jpy)
    else:
        vecs = [[3, 1, 12, 3], [1, 1, 1], [5, 2]]
        mk = lambda n: Quantity(n, pre.BYTE)
    vec = E.choice('ratios', vecs)
    for disperse in (True, False):
        portions, rem = q.allocate([mk(n) for n in vec], disperse)
        _obligations(E, q, before, [Fraction(n) for n in vec], portions, rem, quantum, disperse, mode, cls, unit,
                     info + [vec, disperse])


def bad_ratios(E, cfg):
    import quantity.predefined as pre
    from quantity import Quantity, IncompatibleUnitsError
    a = E.rational('a', 'dec')
    q = Quantity(a, pre.KILOGRAM)
    C.expect_raises(E, lambda: q.allocate([1 * pre.KILOGRAM, 2]), TypeError, 'mixed-quantity-and-number-rejected')
    C.expect_raises(E, lambda: q.allocate([1 * pre.KILOGRAM, 2 * pre.METRE]), IncompatibleUnitsError,
                    'mixed-quantity-types-rejected')


def mode_switch(E, cfg):
    """the same allocation under three default rounding modes in one process: each result obeys the bounds of
    the mode that is active when it is computed"""
    cls, unit, quantum = _receiver(E, cfg['recv'])
    n = cfg['n']
    q = cls(C.num(cfg['amount']), unit)
    amount_before = q.amount
    rs = [E.rational('r%d' % i, 'frac') for i in range(n)]
    E.assume(E.And(*[r > 0 for r in rs]))
    tot = rs[0]
    for r in rs[1:]:
        tot = tot + r
    E.assume(tot == 1)
    for mname in ('ROUND_FLOOR', 'ROUND_HALF_EVEN', 'ROUND_CEILING'):
        C.set_default_mode(mname)
        for disperse in (False,):
            portions, remainder = q.allocate(list(rs), disperse)
            _obligations(E, q, amount_before, [E.exact(r) for r in rs], portions, remainder, quantum, disperse, mname, cls,
                         unit, [cfg, mname, disperse])
            if not disperse:
                # directed modes: every portion on the side the mode prescribes
                for i, p in enumerate(portions):
                    share = amount_before * E.exact(rs[i])
                    if mname == 'ROUND_FLOOR':
                        E.check(p.amount <= share, 'floor-portion-not-above-share', key='alloc:mode-side', info=[cfg, mname])
                    elif mname == 'ROUND_CEILING':
                        E.check(p.amount >= share, 'ceiling-portion-not-below-share', key='alloc:mode-side', info=[cfg, mname])
