"""C05 -- quantized types hold the nearest multiple of the quantum, rounded once."""
from __future__ import annotations

from fractions import Fraction

from . import common as C

PROPERTY = 'C05'
BUDGET = {'quick': 150, 'thorough': 1200}
LAST_CONFIG_INFO = {}

META = {
    'bounds': [
        'amount(s): unbounded rationals in both flavours; where a product / quotient is rounded, '
        'one multiplicand family is symbolic at a time (amount symbolic with concrete scalar / '
        'second operand, and scalar symbolic with concrete amount)',
        'units: DataVolume units (quick: 6, thorough: all 18), ISO currencies by minor-unit class '
        '(quick: EUR, JPY, KWD, CLF; thorough: every table entry for the constructor), user types '
        'with quanta 1/8, 1/3, 1/100, 5, 12 and scaled units',
        'producing operations: constructor from int / Decimal / Fraction / float / stdlib Decimal / '
        'text, +, -, neg, abs, *k, /k, k*, convert, quantity x quantity with quantized result, '
        'quantize and round (grid only), money x rate, money / rate',
        'all 8 default rounding modes',
    ],
    'outside_bounds': ['amount and scalar symbolic simultaneously under rounding',
                       'allocate portions (C06)',
                       'quantize / round are two-step by design: only grid membership is asserted'],
    'stubs': ['decimalfp.Decimal(x, precision): m = round_default_mode(x * 10**precision) -- "rounded once" is the semantic obligation result == round(exact / quantum) * quantum; an intermediate extra rounding makes it fail for some amount',
              'Decimal.quantize, round (for the two grid-only operations)'],
    'assumptions': ['textbook definition of the eight rounding modes',
                    'quantum oracle: declared quantum / own scale walk; currencies: 10**-minor from own ISO parse'],
}
META['bounds'].append('mode_switch: MILLI / DECI / KILO * unit and three float * unit products re-evaluated under every mode of the job')

DV_QUICK = ['B', 'b', 'kB', 'KiB', 'Tib', 'Mb']
CUR_QUICK = ['EUR', 'JPY', 'KWD', 'CLF']
USER_QUANTA = ['1/8', '1/3', '0.01', '5', '12']
SCALARS = ['3', '1/3', '0.7', '-2.5', '1']
OPS = ['ctor', 'ctor_kinds', 'add', 'sub', 'neg_abs', 'mulk', 'divk', 'convert', 'grid_only']


def setup(mode):
    C.import_catalogue()
    import quantity.money  # noqa: F401


def jobs(tier, seed):
    rng = C.rng_for(seed, 'c05')
    import quantity.predefined as pre
    dv = [u.symbol for u in pre.DataVolume.units()]
    dv_sel = DV_QUICK if tier == 'quick' else dv
    cur_sel = CUR_QUICK if tier == 'quick' else CUR_QUICK + ['BHD', 'UYW', 'USD', 'ISK']
    out = []
    modes = C.MODES
    k = 0
    for us in dv_sel:
        for m in (modes if tier == 'thorough' else [modes[(k + i * 3) % 8] for i in range(3)]):
            other = dv[(dv.index(us) * 7 + k) % len(dv)]
            out.append({'fn': 'ops', 'cfg': {'kind': 'dv', 'unit': us, 'other': other, 'mode': m,
                                             'flav': 'dec' if k % 2 else 'frac', 'scalar': SCALARS[k % 5]}})
            k += 1
    for cs in cur_sel:
        for m in (modes if tier == 'thorough' else [modes[(k + i * 3) % 8] for i in range(3)]):
            out.append({'fn': 'ops', 'cfg': {'kind': 'cur', 'unit': cs, 'other': cs, 'mode': m,
                                             'flav': 'dec' if k % 2 else 'frac', 'scalar': SCALARS[k % 5]}})
            k += 1
    for q in USER_QUANTA:
        for ui in range(3):
            for m in (modes if tier == 'thorough' else [modes[(k + i * 3) % 8] for i in range(2)]):
                out.append({'fn': 'ops', 'cfg': {'kind': 'user', 'quantum': q, 'unit': ui,
                                                 'other': (ui + 1 + k) % 3, 'mode': m,
                                                 'flav': 'dec' if k % 2 else 'frac',
                                                 'scalar': SCALARS[k % 5]}})
                k += 1
    # scalar symbolic, amount concrete
    for i, m in enumerate(modes):
        out.append({'fn': 'scalar_sym', 'cfg': {'kind': 'dv', 'unit': dv_sel[i % len(dv_sel)], 'mode': m,
                                                'amount': ['10', '0.3', '-7/3', '1000001'][i % 4]}})
        out.append({'fn': 'scalar_sym', 'cfg': {'kind': 'cur', 'unit': cur_sel[i % len(cur_sel)], 'mode': m,
                                                'amount': ['10', '0.3', '-7/3', '1000001'][(i + 1) % 4]}})
        out.append({'fn': 'scalar_sym', 'cfg': {'kind': 'user', 'quantum': USER_QUANTA[i % 5], 'unit': i % 3,
                                                'mode': m, 'amount': ['10', '0.3', '-7/3', '12'][(i + 2) % 4]}})
    # quantity x quantity with quantized result: DataThroughput x Duration
    import quantity.predefined as pre
    dts = [u.symbol for u in pre.DataThroughput.units()]
    durs = [u.symbol for u in pre.Duration.units()]
    n_qq = 8 if tier == 'quick' else 48
    for i in range(n_qq):
        out.append({'fn': 'qty_x_qty', 'cfg': {'dt': rng.choice(dts), 'dur': rng.choice(durs),
                                               'mode': modes[i % 8], 'sym': 'left' if i % 2 else 'right',
                                               'concrete': ['3', '0.001', '7/3', '16000'][i % 4]}})
    # every ISO currency: constructor (thorough) / seeded 24 (quick)
    codes = sorted(C.iso_table())
    sel = codes if tier == 'thorough' else C.sample(rng, codes, 24)
    for ch in C.chunks(sel, 8):
        out.append({'fn': 'iso_ctor', 'cfg': {'codes': ch, 'mode': modes[len(ch) % 8]}})
    for i, m in enumerate(modes if tier == 'thorough' else modes[:4]):
        out.append({'fn': 'converter_arith', 'cfg': {'mode': m}})
        out.append({'fn': 'mode_switch', 'cfg': {'first': modes[(i + 3) % 8], 'second': m, 'kind': ['dv', 'cur', 'user'][i % 3],
                                                'quantum': USER_QUANTA[i % 5], 'unit': i % 3 if i % 3 == 2 else ['kB', 'EUR', 1][i % 3]}})
        out.append({'fn': 'alloc_grid', 'cfg': {'mode': m, 'kind': ['dv', 'user', 'cur'][i % 3], 'quantum': USER_QUANTA[(i + 3) % 5],
                                               'unit': ['b', 2, 'JPY'][i % 3]}})
    out.append({'fn': 'rates', 'cfg': {'mode': 'ROUND_HALF_EVEN'}})
    out.append({'fn': 'rates', 'cfg': {'mode': 'ROUND_FLOOR'}})
    out.append({'fn': 'ops', 'cfg': {'kind': 'dv', 'unit': 'kB', 'other': 'b', 'mode': 'ROUND_HALF_EVEN',
                                     'flav': 'dec', 'scalar': '3', 'canary': True}, 'canary': True})
    LAST_CONFIG_INFO.clear()
    LAST_CONFIG_INFO.update({'datavolume_units': {'enumerated': len(dv_sel), 'total': len(dv)},
                             'currencies_ops': len(cur_sel),
                             'iso_ctor': {'enumerated': len(sel), 'total': len(codes)},
                             'user_quanta': USER_QUANTA, 'modes': 8, 'exhaustive': False})
    return out


def _units(E, cfg):
    """-> (cls, unit, other_unit, quantum_of(unit) function)"""
    kind = cfg['kind']
    if kind == 'dv':
        import quantity.predefined as pre
        cls = pre.DataVolume
        u = C.unit(cfg['unit'])
        v = C.unit(cfg.get('other', cfg['unit']))
        qref = Fraction(1, 8)
        return cls, u, v, (lambda x: qref / C.scale(x))
    if kind == 'cur':
        from quantity.money import Money
        u = Money.register_currency(cfg['unit'])
        v = Money.register_currency(cfg.get('other', cfg['unit']))
        table = C.iso_table()
        return Money, u, v, (lambda x: Fraction(1, 10 ** table[x.symbol][1]))
    qref = Fraction(cfg['quantum'])
    cls = C.mk_cls('QT', ref_unit_symbol='qt0', quantum=C.num(cfg['quantum']))
    from decimalfp import Decimal
    units = [cls.ref_unit, cls.new_unit('qt1', None, Decimal(60) * cls.ref_unit)]
    units.append(cls.new_unit('qt2', None, Fraction(1, 4) * units[1]))
    u = units[cfg['unit']]
    v = units[cfg.get('other', cfg['unit'])]
    return cls, u, v, (lambda x: qref / C.scale(x))


def _produced(E, r, exact, qu, mode, label, cls, unit, n_before, one_rounding=True):
    """obligations on one produced instance"""
    E.check(type(r) is cls, label + '-class')
    E.check(r.unit is unit, label + '-unit')
    E.check(E.is_int(r.amount / qu), label + '-on-grid', key=label + '-on-grid')
    E.check(E.is_rounding(mode, r.amount / qu, exact / qu), label + '-nearest-rounded-once',
            key=label + '-nearest-rounded-once')


def _nr(E):
    n = E.n_roundings()
    return 0 if n is None else n


def ops(E, cfg):
    from decimalfp import Decimal
    from quantity import Quantity
    C.set_default_mode(cfg['mode'])
    mode = C.mode(cfg['mode'])
    cls, u, v, quantum_of = _units(E, cfg)
    qu, qv = quantum_of(u), quantum_of(v)
    a = E.rational('a', cfg['flav'])
    op = E.choice('op', OPS)
    n0 = _nr(E)
    qa = cls(a, u)
    if op == 'ctor':
        _produced(E, qa, a, qu, mode, 'ctor', cls, u, n0)
        n0 = _nr(E)
        qg = Quantity(a, u)                       # generic factory
        _produced(E, qg, a, qu, mode, 'ctor-generic', cls, u, n0)
        # (both factories are proved to be the same function of `a`; a direct equality of the two
        # rounding variables is the uniqueness argument z3 does not find within the time limit)
        E.observe('amount', qa.amount)
        if cfg.get('canary'):
            E.check(E.is_rounding(C.mode('ROUND_FLOOR'), qa.amount / qu, a / qu), 'canary-ctor-floor')
        return
    if op == 'ctor_kinds':
        import decimal
        kinds = [('int', 7, Fraction(7)), ('bool', True, Fraction(1)),
                 ('float', 0.1, Fraction(0.1)), ('float-tiny', 1e-7, Fraction(1e-7)),
                 ('stdlib', decimal.Decimal('2.675'), Fraction('2.675')),
                 ('str', '1.005', Fraction('1.005')), ('str-frac', '10/3', Fraction(10, 3)),
                 ('neg', Decimal('-0.0625'), Fraction(-1, 16)), ('zero', 0, Fraction(0))]
        name, val, exact = E.choice('kind', kinds)
        n0 = _nr(E)
        if isinstance(val, str):
            r = cls('%s %s' % (val, u.symbol))
        else:
            r = cls(val, u)
        _produced(E, r, exact, qu, mode, 'ctor-kind', cls, u, n0, one_rounding=False)
        return
    b = E.rational('b', 'dec' if cfg['flav'] == 'frac' else 'frac')
    qb = cls(b, v)
    same_family = (cfg['kind'] != 'cur') or (u is v)
    if op in ('add', 'sub') and same_family:
        n0 = _nr(E)
        conv = qb.amount * C.scale(v) / C.scale(u) if cfg['kind'] != 'cur' else qb.amount
        if op == 'add':
            r = qa + qb
            _produced(E, r, qa.amount + conv, qu, mode, 'add', cls, u, n0)
        else:
            r = qa - qb
            _produced(E, r, qa.amount - conv, qu, mode, 'sub', cls, u, n0)
        return
    if op == 'neg_abs':
        n0 = _nr(E)
        r = -qa
        _produced(E, r, -qa.amount, qu, mode, 'neg', cls, u, n0)
        n0 = _nr(E)
        r = abs(qa)
        _produced(E, r, E.abs(qa.amount), qu, mode, 'abs', cls, u, n0)
        return
    k = C.num(cfg['scalar'])
    if op == 'mulk':
        n0 = _nr(E)
        r = qa * k
        _produced(E, r, qa.amount * k, qu, mode, 'mulk', cls, u, n0)
        n0 = _nr(E)
        r = k * qa
        _produced(E, r, qa.amount * k, qu, mode, 'rmulk', cls, u, n0)
        n0 = _nr(E)
        r = k * u                                   # number x unit
        _produced(E, r, Fraction(k), qu, mode, 'num-x-unit', cls, u, n0, one_rounding=False)
        return
    if op == 'divk':
        n0 = _nr(E)
        r = qa / k
        _produced(E, r, qa.amount / k, qu, mode, 'divk', cls, u, n0)
        return
    if op == 'convert' and cfg['kind'] != 'cur':
        n0 = _nr(E)
        r = qa.convert(v)
        _produced(E, r, qa.amount * C.scale(u) / C.scale(v), qv, mode, 'convert', cls, v, n0)
        # grid is defined in the reference unit: conversion of an on-grid value is exact
        E.check(r.amount * C.scale(v) == qa.amount * C.scale(u), 'convert-exact-on-grid')
        return
    if op == 'grid_only':
        r = round(qa, 1)
        E.check(r.unit is u and E.is_int(r.amount / qu), 'round-on-grid', key='round-on-grid')
        if cfg['kind'] != 'cur':
            quant = cls(C.num(str(3 * qv)), v)          # a non-zero quantum on the grid of v
            r = qa.quantize(quant)
            E.check(r.unit is u and E.is_int(r.amount / qu), 'quantize-on-grid', key='quantize-on-grid')
        return
    E.ok('skipped-op-for-kind')


def scalar_sym(E, cfg):
    """amount concrete, scalar symbolic (the other half of the linearity rule)"""
    C.set_default_mode(cfg['mode'])
    mode = C.mode(cfg['mode'])
    cls, u, v, quantum_of = _units(E, dict(cfg, other=cfg['unit']))
    qu = quantum_of(u)
    qa = cls(C.num(cfg['amount']), u)
    k = E.rational('k', 'dec')
    n0 = _nr(E)
    r = qa * k
    _produced(E, r, qa.amount * k, qu, mode, 'mulk-symk', cls, u, n0)
    E.assume(k != 0)
    n0 = _nr(E)
    r = qa / k
    _produced(E, r, qa.amount / k, qu, mode, 'divk-symk', cls, u, n0)
    kf = E.exact(k)
    n0 = _nr(E)
    r = kf * qa
    _produced(E, r, qa.amount * k, qu, mode, 'rmulk-symk-frac', cls, u, n0)
    n0 = _nr(E)
    r = k * u
    _produced(E, r, k, qu, mode, 'symk-x-unit', cls, u, n0)
    E.observe('prod', r.amount)


def qty_x_qty(E, cfg):
    import quantity.predefined as pre
    from quantity import Quantity
    C.set_default_mode(cfg['mode'])
    mode = C.mode(cfg['mode'])
    dt, du = C.unit(cfg['dt']), C.unit(cfg['dur'])
    c = C.num(cfg['concrete'])
    x = E.rational('x', 'dec')
    if cfg['sym'] == 'left':
        q1, q2 = Quantity(x, dt), Quantity(c, du)
    else:
        q1, q2 = Quantity(c, dt), Quantity(x, du)
    ref = q1.amount * C.scale(dt) * q2.amount * C.scale(du)      # bytes, exact
    qB = Fraction(1, 8)
    for label, fn in (('thr-x-dur', lambda: q1 * q2), ('dur-x-thr', lambda: q2 * q1),
                      ('thr-x-durunit', None), ('durunit-x-thr', None)):
        n0 = _nr(E)
        if label == 'thr-x-durunit':
            r = q1 * du
            exact_ref = q1.amount * C.scale(dt) * C.scale(du)
        elif label == 'durunit-x-thr':
            r = du * q1
            exact_ref = q1.amount * C.scale(dt) * C.scale(du)
        else:
            r = fn()
            exact_ref = ref
        ru = r.unit
        E.check(type(r) is pre.DataVolume, label + '-class')
        qu = qB / C.scale(ru)
        E.check(E.is_rounding(mode, r.amount / qu, exact_ref / C.scale(ru) / qu),
                label + '-nearest-rounded-once', key=label + '-nearest-rounded-once', info=cfg)
    E.observe('res', r.amount)


def iso_ctor(E, cfg):
    from quantity.money import Money
    C.set_default_mode(cfg['mode'])
    mode = C.mode(cfg['mode'])
    code = E.choice('code', cfg['codes'])
    cur = Money.register_currency(code)
    qu = Fraction(1, 10 ** C.iso_table()[code][1])
    a = E.rational('a', 'dec')
    n0 = _nr(E)
    m = Money(a, cur)
    _produced(E, m, a, qu, mode, 'iso-ctor', Money, cur, n0)
    E.check(cur.quantum == qu and cur.smallest_fraction == qu, 'iso-quantum', info=code)


def rates(E, cfg):
    from quantity.money import ExchangeRate, Money
    C.set_default_mode(cfg['mode'])
    mode = C.mode(cfg['mode'])
    eur, jpy, kwd = (Money.register_currency(c) for c in ('EUR', 'JPY', 'KWD'))
    a = E.rational('a', 'dec')
    for (cu, mult, ct, amt) in ((eur, 1, jpy, '163.27'), (kwd, 100, eur, '299.5125'),
                                (jpy, 1000, kwd, '2.05')):
        rate = ExchangeRate(cu, mult, ct, C.num(amt))
        m = Money(a, cu)
        n0 = _nr(E)
        r = m * rate
        qt = Fraction(1, 10 ** C.iso_table()[ct.symbol][1])
        _produced(E, r, m.amount * Fraction(amt) / mult, qt, mode, 'money-x-rate', Money, ct, n0)
        n0 = _nr(E)
        r2 = rate * m
        _produced(E, r2, m.amount * Fraction(amt) / mult, qt, mode, 'rate-x-money', Money, ct, n0)
        mt = Money(a, ct)
        n0 = _nr(E)
        r3 = mt / rate
        qc = Fraction(1, 10 ** C.iso_table()[cu.symbol][1])
        _produced(E, r3, mt.amount * mult / Fraction(amt), qc, mode, 'money-div-rate', Money, cu, n0)


def converter_arith(E, cfg):
    """money of two currencies added / subtracted / compared through a registered converter: the result is
    the exact value in the left currency rounded once"""
    from decimalfp import Decimal
    from quantity.money import Money, MoneyConverter
    C.set_default_mode(cfg['mode'])
    mode = C.mode(cfg['mode'])
    eur, usd, jpy = (Money.register_currency(c) for c in ('EUR', 'USD', 'JPY'))
    conv = MoneyConverter(eur)
    conv.update(None, [(usd, Decimal('1.25'), 1), (jpy, Decimal('160'), 1)])
    a = E.rational('a', 'dec')
    b = E.rational('b', 'frac')
    left, right, rate = E.choice('pair', [(eur, usd, Fraction(4, 5)), (usd, eur, Fraction(5, 4)), (eur, jpy, Fraction(1, 160)),
                                          (jpy, eur, Fraction(160))])
    ql = Fraction(1, 10 ** C.iso_table()[left.symbol][1])
    with conv:
        m1, m2 = Money(a, left), Money(b, right)
        for label, fn, exact in (('conv-add', lambda: m1 + m2, m1.amount + m2.amount * rate),
                                 ('conv-sub', lambda: m1 - m2, m1.amount - m2.amount * rate)):
            n0 = _nr(E)
            r = fn()
            _produced(E, r, exact, ql, mode, label, Money, left, n0)
        n0 = _nr(E)
        r = m2.convert(left)
        _produced(E, r, m2.amount * rate, ql, mode, 'conv-convert', Money, left, n0)
    E.check(len(list(Money.registered_converters())) == 0, 'converter-unregistered')


def mode_switch(E, cfg):
    """the same amount constructed under two default modes in one process: each result follows the mode
    that is active at its construction"""
    cls, u, v, quantum_of = _units(E, dict(cfg, other=cfg['unit']))
    qu = quantum_of(u)
    a = E.rational('a', 'dec')
    for mname in (cfg['first'], cfg['second'], cfg['first']):
        C.set_default_mode(mname)
        n0 = _nr(E)
        q = cls(a, u)
        _produced(E, q, a, qu, C.mode(mname), 'ctor-after-mode-switch', cls, u, n0)
        n0 = _nr(E)
        r = q * C.num('1/3')
        _produced(E, r, q.amount / 3, qu, C.mode(mname), 'mul-after-mode-switch', cls, u, n0)
        # concrete products of a number / SI prefix and the unit: evaluated again under every mode
        from quantity.si_prefixes import MILLI, DECI, KILO
        for label, fn, exact in (('milli-x-unit', lambda: MILLI * u, Fraction(1, 1000)), ('deci-x-unit', lambda: DECI * u, Fraction(1, 10)),
                                 ('kilo-x-unit', lambda: KILO * u, Fraction(1000)),
                                 ('float-x-unit', lambda: 0.1 * u, Fraction(0.1)), ('unit-x-float', lambda: u * 2.675, Fraction(2.675)),
                                 ('float3.7-x-unit', lambda: 3.7 * u, Fraction(3.7))):
            n0 = _nr(E)
            r = fn()
            _produced(E, r, exact, qu, C.mode(mname), label + '-after-mode-switch', cls, u, n0, one_rounding=False)


def alloc_grid(E, cfg):
    """portions of an allocation are instances like any other: on the grid of their unit"""
    C.set_default_mode(cfg['mode'])
    cls, u, v, quantum_of = _units(E, dict(cfg, other=cfg['unit']))
    qu = quantum_of(u)
    k = E.integer('k')
    q = cls(k * C.num(str(qu)), u)
    ratios = E.choice('ratios', [[1, 2], [1, 1], [3, 7]])      # n = 2: the amount-symbolic allocation with n = 3 takes minutes (C06)
    for disperse in (True, False):
        portions, rem = q.allocate(ratios, disperse)
        for p in portions:
            E.check(type(p) is cls and p.unit is u and E.is_int(p.amount / qu), 'allocated-portion-on-grid',
                    key='alloc-portion-grid', info=[cfg, ratios, disperse])
        E.check(E.is_int(rem.amount / qu), 'allocation-remainder-on-grid', key='alloc-remainder-grid', info=[cfg, ratios])
