"""C19 -- objects that compare equal hash equal."""
from __future__ import annotations

from fractions import Fraction

from . import common as C

PROPERTY = 'C19'
BUDGET = {'quick': 150, 'thorough': 900}
LAST_CONFIG_INFO = {}
# a hash cached when the object is built is computed outside the recording (3.2) and is seen by the concrete twin only:
# validate a larger share of the paths concretely
WITNESS_FRACTION = {'quick': 0.35, 'thorough': 0.6}
WITNESS_CAP = {'quick': 2000, 'thorough': 6000}

META = {
    'bounds': ['quantities: two unbounded symbolic amounts in every flavour mixture, all ordered in-type unit pairs of the '
               'linear types incl. identical units (both tiers), temperature pairs (equal through a converter), money',
               'units: all ordered in-type pairs of the catalogue (concrete) and user units f*U, g*V with symbolic factors',
               'terms: pairs of differently built terms over base / derived / convertible units with a symbolic numeric '
               'factor; exchange rates: pairs built from (multiple, amount) with symbolic amounts, multiples from a list'],
    'outside_bounds': ['hash values themselves (only equality of hashes of equal objects)', 'term shapes beyond the listed ones (C07)'],
    'stubs': ['hash of a symbolic number: the engine records the hashed term and returns a constant; two recorded hashes are '
              'equal iff the concrete residues are equal and the recorded terms are pairwise provably equal'],
    'assumptions': ['equal rationals hash equal across int / Decimal / Fraction (CPython / decimalfp contract)',
                    'distinct concrete residues mean distinct hashes (hash collisions are ignored; a counterexample is '
                    'only reported after its real hashes were compared in the replay)'],
}
META['bounds'].append('exchange rates built under 3 pairs of default rounding modes')
META['bounds'].append('rate hashed before and after the change of the default mode')
META['bounds'].append('portions and remainder of 27 concrete allocations: hash equal to their conversions and to a fresh twin')


def setup(mode):
    C.import_catalogue()
    import quantity.money  # noqa: F401


def jobs(tier, seed):
    out = []
    pairs = []
    for cls in C.linear_classes():
        us = [u.symbol for u in cls.units()]
        for a in us:
            for b in us:
                pairs.append([a, b])
    fl = ['dec', 'frac']
    for i, ch in enumerate(C.chunks(pairs, 24)):
        out.append({'fn': 'qty_pairs', 'cfg': {'pairs': ch, 'fa': fl[i % 2], 'fb': fl[(i // 2) % 2]}})
    for ch in C.chunks(pairs, 8):
        out.append({'fn': 'unit_pairs', 'cfg': {'pairs': ch}})
    out.append({'fn': 'qty_pairs', 'cfg': {'pairs': [['°C', '°F'], ['°C', 'K'], ['K', '°F'], ['K', 'K'], ['°F', '°F']],
                                           'fa': 'dec', 'fb': 'frac', 'converter': True}})
    out.append({'fn': 'money_pairs', 'cfg': {}})
    out.append({'fn': 'alloc_portions', 'cfg': {}})
    out.append({'fn': 'rates_concrete', 'cfg': {}})
    out.append({'fn': 'user_units', 'cfg': {}})
    out.append({'fn': 'terms', 'cfg': {}})
    for mi in range(3):
        out.append({'fn': 'rates', 'cfg': {'modes': mi}, 'opts': {'mag_range': (-6, 9)}})
    out.append({'fn': 'qty_pairs', 'cfg': {'pairs': [['kg', 'kg']], 'fa': 'dec', 'fb': 'frac', 'canary': True},
                'canary': True})
    LAST_CONFIG_INFO.clear()
    LAST_CONFIG_INFO.update({'in_type_pairs': {'enumerated': len(pairs), 'total': len(pairs)}, 'exhaustive': True})
    return out


def _eq_implies_hash(E, x, y, label, key, info=None):
    eq = (x == y)
    hx, hy = E.hash_of(x), E.hash_of(y)
    E.check(E.Implies(eq, E.hash_equal(hx, hy)), label, key=key, info=info)
    eq2 = (y == x)
    E.check(E.Iff(eq, eq2), label + '-eq-symmetric', key=key + ':eq-asymmetric', info=info)


def qty_pairs(E, cfg):
    from quantity import Quantity
    us, vs = E.choice('pair', cfg['pairs'])
    u, v = C.unit(us), C.unit(vs)
    a = E.rational('a', cfg['fa'])
    b = E.rational('b', cfg['fb'])
    qa, qb = Quantity(a, u), Quantity(b, v)
    kind = 'same-unit' if u is v else ('converter' if cfg.get('converter') else 'cross-unit')
    _eq_implies_hash(E, qa, qb, 'equal-quantities-hash-equal', 'qty-hash:' + kind, [us, vs])
    # same value held as decimal and as fraction
    qf = Quantity(E.exact(a), u)
    _eq_implies_hash(E, qa, qf, 'decimal-vs-fraction-amount-hash-equal', 'qty-hash:flavour', [us])
    if u.qty_cls.quantum is None:      # (two independent rounding variables otherwise: see DESIGN, uniqueness)
        E.check(qa == qf, 'decimal-vs-fraction-amount-equal')
    E.check(len({qa, qf}) == 1 if E.mode == 'conc' else True, 'set-holds-one-of-two-equal')
    if cfg.get('canary'):
        hx, hy = E.hash_of(qa), E.hash_of(qb)
        E.check(E.hash_equal(hx, hy), 'canary-all-hashes-equal')


def unit_pairs(E, cfg):
    us, vs = E.choice('pair', cfg['pairs'])
    u, v = C.unit(us), C.unit(vs)
    if u == v:
        E.check(hash(u) == hash(v), 'equal-units-hash-equal', key='unit-hash:' + ('same' if u is v else 'same-scale'),
                info=[us, vs])
    else:
        E.ok('units-unequal')


def money_pairs(E, cfg):
    from quantity.money import Money
    eur, usd = Money.register_currency('EUR'), Money.register_currency('USD')
    a, b = E.rational('a', 'dec'), E.rational('b', 'frac')
    c1, c2 = E.choice('cur', [(eur, eur), (eur, usd)])
    _eq_implies_hash(E, Money(a, c1), Money(b, c2), 'equal-money-hash-equal', 'money-hash', [c1.symbol, c2.symbol])


def user_units(E, cfg):
    from quantity import Quantity
    X = C.mk_cls('XLen', ref_unit_symbol='x0')
    f = E.rational('f', 'dec')
    g = E.rational('g', 'frac')
    E.assume(E.And(f > 0, g > 0, f != 1, g != 1))
    x1 = X.new_unit('x1', None, f * X.ref_unit)
    x2 = X.new_unit('x2', None, g * X.ref_unit)
    eq = (x1 == x2)
    E.check(E.Implies(eq, hash(x1) == hash(x2)), 'equal-user-units-hash-equal', key='unit-hash:same-scale', info=['x1', 'x2'])
    a, b = E.rational('a', 'dec'), E.rational('b', 'dec')
    _eq_implies_hash(E, Quantity(a, x1), Quantity(b, x2), 'equal-user-quantities-hash-equal', 'qty-hash:cross-unit', ['x1', 'x2'])


def terms(E, cfg):
    import quantity.predefined as pre
    from decimalfp import Decimal
    from quantity.term import Term
    x = E.rational('x', 'dec')
    y = E.rational('y', 'frac')
    E.assume(E.And(x != 0, y != 0, x != 1, y != 1))
    km, m, s, h, N, kg = pre.KILOMETRE, pre.METRE, pre.SECOND, pre.HOUR, pre.NEWTON, pre.KILOGRAM
    builders = [
        ('scaled-unit', lambda: (Term(((x, 1), (km, 1))), Term(((y, 1), (m, 1))))),
        ('order', lambda: (Term(((x, 1), (m, 1), (s, -1))), Term(((s, -1), (y, 1), (m, 1))))),
        ('derived-expanded', lambda: (Term(((x, 1), (N, 1))), Term(((y, 1), (kg, 1), (m, 1), (s, -2))))),
        ('km-per-h', lambda: (Term(((x, 1), (km, 1), (h, -1))), Term(((y, 1), (m, 1), (s, -1))))),
        ('product', lambda: (Term(((x, 1), (m, 1))) * Term(((m, 1),)), Term(((y, 1), (m, 2))))),
        ('quotient', lambda: (Term(((x, 1), (km, 1))) / Term(((s, 1),)), Term(((y, 1), (m, 1), (s, -1))))),
        ('power', lambda: (Term(((x, 1), (km, 1))) ** 2, Term(((y, 1), (m, 2))))),
        ('same-key-order', lambda: (Term(((x, 1), (_eur(), 1), (_usd(), -1))), Term(((_usd(), -1), (y, 1), (_eur(), 1))))),
        ('numeric-kinds', lambda: (Term(((x, 1), (Decimal(2), 1), (m, 1))), Term(((y, 1), (Fraction(4, 2), 1), (m, 1))))),
    ]
    name, fn = E.choice('shape', builders)
    t1, t2 = fn()
    _eq_implies_hash(E, t1, t2, 'equal-terms-hash-equal', 'term-hash:' + name, [name])
    E.check(E.Implies(t1 == t2, E.hash_equal(E.hash_of(t1.normalized()), E.hash_of(t2))), 'normal-form-hash-equal',
            key='term-hash-normalized:' + name)


def _eur():
    from quantity.money import Money
    return Money.register_currency('EUR')


def _usd():
    from quantity.money import Money
    return Money.register_currency('USD')


def rates_concrete(E, cfg):
    """concrete rates with more than six fractional digits in the rate (unit multiple > 1), built and hashed under
    different default rounding modes (enumeration; a hash cached at construction is invisible to the recording)"""
    from decimalfp import Decimal
    from quantity.money import ExchangeRate, Money
    eur, jpy = Money.register_currency('EUR'), Money.register_currency('JPY')
    um, amt = E.choice('rate', [(100, '0.612355'), (1, '0.00612355'), (1000, '1.234565'), (10, '0.1234565'), (100, '0.612345'),
                                (1, '0.00612345'), (1, '1.25')])
    m1, m2 = E.choice('modes', [('ROUND_HALF_EVEN', 'ROUND_DOWN'), ('ROUND_CEILING', 'ROUND_FLOOR'), ('ROUND_HALF_UP', 'ROUND_05UP'),
                                ('ROUND_UP', 'ROUND_HALF_DOWN')])
    C.set_default_mode(m1)
    r1 = ExchangeRate(jpy, um, eur, Decimal(amt))
    h1 = hash(r1)
    C.set_default_mode(m2)
    r2 = ExchangeRate(jpy, um, eur, Decimal(amt))
    # (the stored amount is rounded with the mode active at construction, so the two need not be equal)
    if r1 == r2:
        E.check(hash(r1) == hash(r2), 'equal-rates-hash-equal-across-modes', key='rate-hash-concrete:hash', info=[um, amt, m1, m2])
        E.check(len({r1, r2}) == 1, 'set-holds-one-of-two-equal-rates', key='rate-hash-concrete:set', info=[um, amt, m1, m2])
    else:
        E.ok('rates-differ-by-construction-mode')
    E.check(hash(r1) == h1, 'rate-hash-stable', key='rate-hash-concrete:stable', info=[um, amt, m1, m2])


def alloc_portions(E, cfg):
    """quantities produced by another operation (portions of an allocation, adjusted in steps of a quantum) hash like
    equal quantities built directly"""
    from decimalfp import Decimal
    from quantity import Quantity
    import quantity.predefined as pre
    us = E.choice('unit', ['B', 'kB', 'b', 'lb'])
    u = C.unit(us)
    amt = E.choice('amount', ['10', '7.125', '1'])
    ratios = E.choice('ratios', [[1, 1, 1], [38, 5, 2, 15], [3, 7]])
    portions, rem = Quantity(Decimal(amt), u).allocate(ratios)
    others = [v for v in u.qty_cls.units() if v is not u][:3]
    for i, p in enumerate(portions + [rem]):
        for v in others + [u]:
            same = p.convert(v)
            if same == p:
                E.check(E.hash_equal(E.hash_of(p), E.hash_of(same)), 'portion-hashes-like-its-conversion',
                        key='qty-hash:portion', info=[us, amt, ratios, i, v.symbol])
            twin = Quantity(p.amount, p.unit)
            E.check(twin == p and E.hash_equal(E.hash_of(p), E.hash_of(twin)), 'portion-hashes-like-a-fresh-twin',
                    key='qty-hash:portion-twin', info=[us, amt, ratios, i])
        E.check(len({p, Quantity(p.amount, p.unit)}) == 1 if E.mode == 'conc' else True, 'set-holds-one-of-portion-and-twin',
                key='qty-hash:portion-set')


def rates(E, cfg):
    from quantity.money import ExchangeRate, Money
    eur, usd, jpy = (Money.register_currency(c) for c in ('EUR', 'USD', 'JPY'))
    t = E.rational('t', 'dec')
    s = E.rational('s', 'frac')
    E.assume(E.And(t >= Fraction(1, 100), t <= 10 ** 5, s >= Fraction(1, 100), s <= 10 ** 5))
    m1, m2 = E.choice('multiples', [(1, 1), (1, 10), (100, 1), (10, 1000), (1, 2), (5, 5)])
    cur = E.choice('cur', [(eur, usd, eur, usd), (eur, usd, eur, jpy), (eur, usd, usd, eur)])
    # the two rates may be built under different default rounding modes (equal rates still hash equal)
    modes = [(None, None), ('ROUND_HALF_EVEN', 'ROUND_DOWN'), ('ROUND_CEILING', 'ROUND_HALF_UP')][cfg.get('modes', 0)]
    if modes[0]:
        C.set_default_mode(modes[0])
    r1 = ExchangeRate(cur[0], m1, cur[1], t)
    h1_early = E.hash_of(r1) if modes[1] else None      # hashed while the first mode is active
    if modes[1]:
        C.set_default_mode(modes[1])
    r2 = ExchangeRate(cur[2], m2, cur[3], s)
    _eq_implies_hash(E, r1, r2, 'equal-rates-hash-equal', 'rate-hash', [m1, m2])
    if h1_early is not None:
        # an equal rate hashed after the mode was changed (looked up in a set filled before the change)
        E.check(E.Implies(r1 == r2, E.hash_equal(h1_early, E.hash_of(r2))), 'equal-rates-hash-equal-across-mode-change',
                key='rate-hash:mode-change', info=[m1, m2, list(modes)])
        E.check(E.hash_equal(h1_early, E.hash_of(r1)), 'rate-hash-stable-across-mode-change', key='rate-hash:unstable',
                info=[m1, list(modes)])
    inv = r1.inverted().inverted() if False else r1
    _eq_implies_hash(E, r1, inv, 'rate-equals-itself-hash-equal', 'rate-hash:self')
    E.check(E.Not(r1 == 5), 'rate-unequal-to-number')
