"""C03 -- addition, subtraction and comparison never mix quantity types; group laws."""
from __future__ import annotations

import operator
from fractions import Fraction

from . import common as C

PROPERTY = 'C03'
BUDGET = {'quick': 120, 'thorough': 900}
LAST_CONFIG_INFO = {}

META = {
    'bounds': [
        'amounts and scalar: unbounded rationals, decimal and fraction flavours',
        'in-type unit pairs: all 1310 (both tiers); triples seeded; all 14x13 ordered pairs of '
        'distinct types (representative units seeded; thorough: 6 unit choices per type pair)',
        'plain numbers: int, bool, Decimal, Fraction, float, symbolic rational, on either side',
        'user type with 7 units declared in every accepted form (int in a term, int * unit, Decimal, Fraction, chained): all 49 pairs',
    ],
    'outside_bounds': ['distributivity k*(a+b) on quantized types (rounding differs by design; C05)',
                       'complex numbers, numpy scalars'],
    'stubs': ['decimalfp.Decimal(x, precision) rounding contract (DataVolume only)'],
    'assumptions': ['reference value oracle: amount * own scale walk of unit.definition'],
}
META['bounds'].append('quantity.sum with a plain number as start (0, 0.0, Decimal(0), Fraction(0), False, 5)')

CMP = [('lt', operator.lt), ('le', operator.le), ('gt', operator.gt), ('ge', operator.ge)]


def setup(mode):
    C.import_catalogue()
    import quantity.money  # noqa: F401


def jobs(tier, seed):
    rng = C.rng_for(seed, 'c03')
    pairs, triples = [], []
    for cls in C.linear_classes():
        us = [u.symbol for u in cls.units()]
        for a in us:
            for b in us:
                pairs.append([a, b])
                for c in us:
                    triples.append([a, b, c])
    n_tr = len(triples)
    triples = C.sample(rng, triples, 400 if tier == 'quick' else 5000)
    classes = C.all_classes()
    cross = []
    reps = 1 if tier == 'quick' else 6
    for c1 in classes:
        for c2 in classes:
            if c1 is c2:
                continue
            for _ in range(reps):
                cross.append([rng.choice(c1.units()).symbol, rng.choice(c2.units()).symbol])
    cross += [['K', 'EUR'], ['EUR', '°C'], ['EUR', 'kg'], ['m', 'EUR']]       # two types without reference unit; money
    out = []
    fl = ['dec', 'frac']
    for i, ch in enumerate(C.chunks(pairs, 32)):
        out.append({'fn': 'add_pair', 'cfg': {'fa': fl[i % 2], 'fb': fl[(i // 2) % 2], 'pairs': ch}})
    for i, ch in enumerate(C.chunks(triples, 24 if tier == 'quick' else 64)):
        out.append({'fn': 'add_triple', 'cfg': {'fl': fl[i % 2], 'triples': ch}})
    for ch in C.chunks(cross, 16):
        out.append({'fn': 'mixed_types', 'cfg': {'pairs': ch}})
    us = [rng.choice(c.units()).symbol for c in classes]
    for ch in C.chunks(us, 7):
        out.append({'fn': 'with_numbers', 'cfg': {'units': ch}})
    out.append({'fn': 'sum_fn', 'cfg': {'pairs': C.sample(rng, pairs, 40 if tier == 'quick' else 300)}})
    out.append({'fn': 'add_user', 'cfg': {'fa': 'dec', 'fb': 'frac'}})
    out.append({'fn': 'add_user', 'cfg': {'fa': 'frac', 'fb': 'dec'}})
    out.append({'fn': 'add_pair', 'cfg': {'fa': 'dec', 'fb': 'frac', 'pairs': [['ft', 'cm']],
                                          'canary': True}, 'canary': True})
    LAST_CONFIG_INFO.clear()
    LAST_CONFIG_INFO.update({'in_type_pairs': {'enumerated': len(pairs), 'total': len(pairs)},
                             'in_type_triples': {'enumerated': len(triples), 'total': n_tr},
                             'cross_type_unit_pairs': len(cross), 'type_pairs': 14 * 13,
                             'exhaustive': False})
    return out


def _ref(q):
    return q.amount * C.scale(q.unit)


def add_pair(E, cfg):
    from quantity import Quantity
    us, vs = E.choice('pair', cfg['pairs'])
    u, v = C.unit(us), C.unit(vs)
    cls = u.qty_cls
    a = E.rational('a', cfg['fa'])
    b = E.rational('b', cfg['fb'])
    qa, qb = Quantity(a, u), Quantity(b, v)
    ra, rb = _ref(qa), _ref(qb)
    s = qa + qb
    E.check(type(s) is cls, 'sum-class')
    E.check(s.unit is u, 'sum-left-unit')
    E.check(_ref(s) == ra + rb, 'sum-reference-value', info=[us, vs])
    d = qa - qb
    E.check(type(d) is cls and d.unit is u, 'diff-class-unit')
    E.check(_ref(d) == ra - rb, 'diff-reference-value', info=[us, vs])
    s2 = qb + qa
    E.check(s2.unit is v, 'sum-commuted-unit')
    E.check(_ref(s2) == _ref(s), 'sum-commutative-by-value')
    E.check(s2 == s, 'sum-commutative-eq')
    n = -qa
    E.check(type(n) is cls and n.unit is u, 'neg-class-unit')
    E.check(_ref(qa + n) == 0, 'neg-is-inverse')
    E.check(_ref(n) == -ra, 'neg-reference-value')
    E.check(_ref(abs(qa)) == abs(ra), 'abs-reference-value')
    E.check((+qa) is qa or _ref(+qa) == ra, 'pos-identity')
    E.check(_ref((qa - qb) + qb) == ra, 'sub-then-add')
    E.observe('sum', s.amount)
    if cls.quantum is None:
        k = E.rational('k', cfg['fb'])
        lhs = k * (qa + qb)
        rhs = k * qa + k * qb
        E.check(_ref(lhs) == _ref(rhs), 'scalar-distributes')
        E.check(lhs.unit is u and type(lhs) is cls, 'scalar-keeps-unit-class')
        E.check(_ref((qa + qb) * k) == k * (ra + rb), 'scalar-right-mult')
    if cfg.get('canary'):
        E.check(_ref(d) == ra + rb, 'canary-diff-as-sum')


def add_user(E, cfg):
    """units of a user type declared in every accepted form (int in a term, int * unit, Decimal, Fraction, chained)"""
    from quantity import Quantity
    T, units = C.user_linear_type()
    syms = sorted(units)
    us, vs = E.choice('pair', [(x, y) for x in syms for y in syms])
    (u, su), (v, sv) = units[us], units[vs]
    a = E.rational('a', cfg['fa'])
    b = E.rational('b', cfg['fb'])
    qa, qb = Quantity(a, u), Quantity(b, v)
    info = [us, vs]
    s = qa + qb
    E.check(type(s) is T and s.unit is u, 'user-sum-class-unit', key='user:class-unit', info=info)
    E.check(s.amount * su == a * su + b * sv, 'user-sum-reference-value', key='user:sum', info=info)
    d = qa - qb
    E.check(d.unit is u and d.amount * su == a * su - b * sv, 'user-diff-reference-value', key='user:diff', info=info)
    s2 = qb + qa
    E.check(s2.unit is v and s2.amount * sv == a * su + b * sv, 'user-sum-commuted', key='user:sum', info=info)
    E.check(s2 == s, 'user-sum-commutative-eq', key='user:commutative', info=info)
    E.check(((qa - qb) + qb).amount == a, 'user-sub-then-add', key='user:sub-add', info=info)
    for name, op in CMP:
        E.check(E.Iff(op(qa, qb), op(a * su, b * sv)), 'user-%s-agrees-with-reference' % name, key='user:cmp', info=info)
    E.check(E.Iff(qa == qb, a * su == b * sv), 'user-eq-agrees-with-reference', key='user:eq', info=info)
    E.check(E.n_roundings() in (0, None), 'user-no-rounding', key='user:rounding')


def add_triple(E, cfg):
    from quantity import Quantity
    us, vs, ws = E.choice('triple', cfg['triples'])
    u, v, w = C.unit(us), C.unit(vs), C.unit(ws)
    fl = cfg['fl']
    a, b, c = E.rational('a', fl), E.rational('b', 'dec'), E.rational('c', 'frac')
    qa, qb, qc = Quantity(a, u), Quantity(b, v), Quantity(c, w)
    l = (qa + qb) + qc
    r = qa + (qb + qc)
    E.check(_ref(l) == _ref(r), 'sum-associative-by-value', info=[us, vs, ws])
    E.check(l == r, 'sum-associative-eq')
    E.check(l.unit is u and r.unit is u, 'sum-left-unit')
    E.check(_ref(l) == _ref(qa) + _ref(qb) + _ref(qc), 'sum3-reference-value')
    E.check(_ref((qa - qb) - qc) == _ref(qa - (qb + qc)), 'sub-associates')
    E.observe('sum3', l.amount)


def _expect_raises(E, fn, exc_cls, label, info):
    try:
        r = fn()
    except exc_cls:
        E.ok(label)
    except Exception as e:
        E.fail(label, key='%s:wrong-exception:%s' % (label, type(e).__name__), info=info)
    else:
        E.fail(label, key='%s:returned-value' % label, info=info + [repr(r)[:80]])


def mixed_types(E, cfg):
    from quantity import Quantity, IncompatibleUnitsError
    us, vs = E.choice('pair', cfg['pairs'])
    if 'EUR' in (us, vs):
        from quantity.money import Money
        Money.register_currency('EUR')
    u, v = C.unit(us), C.unit(vs)
    a = E.rational('a', 'dec')
    b = E.rational('b', 'frac')
    qa, qb = Quantity(a, u), Quantity(b, v)
    info = [us, vs]
    _expect_raises(E, lambda: qa + qb, IncompatibleUnitsError, 'mixed-add-raises', info)
    _expect_raises(E, lambda: qa - qb, IncompatibleUnitsError, 'mixed-sub-raises', info)
    _expect_raises(E, lambda: qa.__radd__(qb), IncompatibleUnitsError, 'mixed-radd-raises', info)
    _expect_raises(E, lambda: qa.__rsub__(qb), IncompatibleUnitsError, 'mixed-rsub-raises', info)
    for name, op in CMP:
        _expect_raises(E, lambda: op(qa, qb), IncompatibleUnitsError,
                       'mixed-%s-raises' % name, info)
    eq = (qa == qb)
    E.check(E.Not(eq), 'mixed-eq-false', info=info)
    ne = (qa != qb)
    E.check(ne, 'mixed-ne-true', info=info)


def with_numbers(E, cfg):
    from decimalfp import Decimal
    from quantity import Quantity
    us = E.choice('unit', cfg['units'])
    u = C.unit(us)
    a = E.rational('a', 'dec')
    qa = Quantity(a, u)
    kinds = [('int', 5), ('zero', 0), ('bool', True), ('Decimal', Decimal('2.5')),
             ('Fraction', Fraction(1, 3)), ('float', 0.5), ('sym', E.rational('x', 'dec')),
             ('symfrac', E.rational('y', 'frac'))]
    kname, k = E.choice('kind', kinds)
    info = [us, kname]
    _expect_raises(E, lambda: qa + k, TypeError, 'num-add-raises', info)
    _expect_raises(E, lambda: k + qa, TypeError, 'num-radd-raises', info)
    _expect_raises(E, lambda: qa - k, TypeError, 'num-sub-raises', info)
    _expect_raises(E, lambda: k - qa, TypeError, 'num-rsub-raises', info)
    for name, op in CMP:
        _expect_raises(E, lambda: op(qa, k), TypeError, 'num-%s-raises' % name, info)
        _expect_raises(E, lambda: op(k, qa), TypeError, 'num-r%s-raises' % name, info)
    E.check(E.Not(qa == k), 'num-eq-false', info=info)
    E.check(E.Not(k == qa), 'num-req-false', info=info)
    E.check(qa != k, 'num-ne-true', info=info)


def sum_fn(E, cfg):
    import quantity
    from quantity import Quantity
    us, vs = E.choice('pair', cfg['pairs'])
    u, v = C.unit(us), C.unit(vs)
    a, b, c = E.rational('a', 'dec'), E.rational('b', 'frac'), E.rational('c', 'dec')
    qa, qb, qc = Quantity(a, u), Quantity(b, v), Quantity(c, u)
    s = quantity.sum([qa, qb, qc])
    E.check(s.unit is u, 'sum-fn-unit')
    E.check(_ref(s) == _ref(qa) + _ref(qb) + _ref(qc), 'sum-fn-value')
    s2 = quantity.sum([qa, qb], qc)
    E.check(s2.unit is u, 'sum-fn-start-unit')
    E.check(_ref(s2) == _ref(s), 'sum-fn-start-value')
    E.check(quantity.sum([]) == 0, 'sum-fn-empty')
    E.check(quantity.sum([qa]) is qa, 'sum-fn-single')
    from decimalfp import Decimal
    for label, start in (('int0', 0), ('float0', 0.0), ('Decimal0', Decimal(0)), ('Fraction0', Fraction(0)), ('False', False),
                         ('int5', 5)):
        _expect_raises(E, lambda: quantity.sum([qa, qb], start), TypeError, 'sum-fn-number-start-raises-' + label, [us, vs])
    try:
        r = sum([qa, qb])          # builtin sum starts with int 0
    except TypeError:
        E.ok('builtin-sum-raises')
    else:
        E.fail('builtin-sum-raises', key='builtin-sum-returned-value')
