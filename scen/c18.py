"""C18 -- construction is exact and the text form round-trips."""
from __future__ import annotations

import decimal
from fractions import Fraction

from . import common as C

PROPERTY = 'C18'
BUDGET = {'quick': 200, 'thorough': 1500}
LAST_CONFIG_INFO = {}

ALPHABET = " \t01/.-e_mkµ²"

META = {
    'bounds': ['numbers: symbolic int, decimal, fraction (unbounded); float as its exact rational value (symbolic) plus concrete '
               'extremes 5e-324, 1.7976931348623157e308, -0.0, 1e-5, 2**-70, 0.1, 1e22; stdlib decimal.Decimal (concrete set); '
               'every catalogue unit (quick: seeded 40) and both factories',
               'text: symbolic strings over the alphabet {blank, tab, 0, 1, /, ., -, e, _, m, k, µ, ²} of length <= 4 (quick) / '
               '5 (thorough); the characters of the amount token are concretised by class (digits, sign, point, slash, e, '
               'underscore individually; the four letter-like characters as one class) and handed to the real Decimal / '
               'Fraction parsers; whitespace and symbol characters stay symbolic',
               'round trip: every unit of the catalogue and a user pool (non-ASCII, compound, inner blank) with a symbolic '
               'amount rendered as a marker token'],
    'outside_bounds': ['strings longer than the bound, other characters (in particular other Unicode whitespace)',
                       'the literal grammars of decimalfp / fractions themselves', 'str() of the dependency\'s numbers',
                       'symbols with leading / trailing whitespace (cannot round-trip by construction of the parser; asserted '
                       'separately as a known limitation)'],
    'stubs': ['marker tokens for text produced from symbolic amounts', '_SYMBOL_UNIT_MAP is a scanning dict (look-up splits on '
              'symbolic character equalities)', 'Decimal(x, precision) rounding contract (quantized types)'],
    'assumptions': ['parsing the text form of a number gives the number back (dependency contract)'],
}
META['bounds'].append('user symbols also parsed before their declaration (rejected), currency text before / after registration')
META['bounds'].append('format / str / round trip over 5 sequences of equal-valued quantities x 3 specs; stdlib decimals with 35-41 digits, also under context precision 6')
META['bounds'].append('user symbols not stable under Unicode normalisation (U+2126, U+212B, U+212A, e + U+0301)')


def setup(mode):
    C.import_catalogue()
    import quantity.money  # noqa: F401


def _all_units():
    return [u for cls in C.all_classes() for u in cls.units()]


def jobs(tier, seed):
    rng = C.rng_for(seed, 'c18')
    syms = [u.symbol for u in _all_units()]
    sel = syms if tier == 'thorough' else C.sample(rng, syms, 40)
    out = []
    for ch in C.chunks(sel, 8):
        out.append({'fn': 'numbers', 'cfg': {'units': ch}})
    for ch in C.chunks(syms, 16):
        out.append({'fn': 'round_trip', 'cfg': {'units': ch}})
    out.append({'fn': 'round_trip_user', 'cfg': {}})
    out.append({'fn': 'format_sequence', 'cfg': {}})
    out.append({'fn': 'concrete_numbers', 'cfg': {}})
    out.append({'fn': 'wrong_unit', 'cfg': {}})
    out.append({'fn': 'malformed_concrete', 'cfg': {}})
    maxlen = 4 if tier == 'quick' else 5
    for n in range(maxlen + 1):
        if n <= 3:
            out.append({'fn': 'text', 'cfg': {'len': n}, 'opts': {'budget_s': 200 if tier == 'quick' else 1500}})
        else:
            # one job per first character (13) and, from length 5 on, per second character class
            for first in ALPHABET:
                if n >= 5:
                    for second in ALPHABET:
                        out.append({'fn': 'text', 'cfg': {'len': n, 'first': first, 'second': second},
                                    'opts': {'budget_s': 200 if tier == 'quick' else 1500}})
                else:
                    out.append({'fn': 'text', 'cfg': {'len': n, 'first': first},
                                'opts': {'budget_s': 200 if tier == 'quick' else 1500}})
    out.append({'fn': 'numbers', 'cfg': {'units': ['kg'], 'canary': True}, 'canary': True})
    LAST_CONFIG_INFO.clear()
    LAST_CONFIG_INFO.update({'units_numbers': {'enumerated': len(sel), 'total': len(syms)}, 'units_round_trip': len(syms),
                             'text_max_len': maxlen, 'alphabet': ALPHABET, 'exhaustive': False})
    return out


def _exact_or_rounded(E, q, x, label, info):
    from decimalfp import get_dflt_rounding_mode
    cls = type(q)
    if cls.quantum is None and q.unit.quantum is None:
        E.check(q.amount == x, label + '-exact', key=label + ':exact', info=info)
    else:
        qu = Fraction(q.unit.quantum)
        E.check(E.is_rounding(get_dflt_rounding_mode(), q.amount / qu, x / qu), label + '-rounded-to-quantum',
                key=label + ':rounded', info=info)


def numbers(E, cfg):
    from decimalfp import Decimal
    from quantity import Quantity
    us = E.choice('unit', cfg['units'])
    u = C.unit(us)
    cls = u.qty_cls
    kind = E.choice('kind', ['int', 'dec', 'frac', 'float-as-rational'])
    if kind == 'int':
        x = E.integer('n')
    elif kind == 'dec':
        x = E.rational('x', 'dec')
    else:
        x = E.rational('x', 'frac')
    for label, fn in (('generic-factory', lambda: Quantity(x, u)), ('own-factory', lambda: cls(x, u))):
        q = fn()
        E.check(type(q) is cls and q.unit is u, label + '-class-unit', key='ctor:class-unit', info=[us, kind])
        _exact_or_rounded(E, q, x, 'ctor-' + label, [us, kind])
        E.check(isinstance(q.amount, (Decimal, Fraction)), label + '-exact-kind', key='ctor:kind', info=[us, kind])
    if cls.ref_unit is u:
        q = cls(x)
        E.check(q.unit is u, 'default-unit-is-reference-unit')
        _exact_or_rounded(E, q, x, 'ctor-default-unit', [us, kind])
    E.observe('amount', q.amount)
    if cfg.get('canary'):
        E.check(Quantity(x, u).amount == x + 1, 'canary-off-by-one')


def concrete_numbers(E, cfg):
    from decimalfp import Decimal
    import quantity.predefined as pre
    from quantity import Quantity
    vals = [('f-denorm', 5e-324), ('f-max', 1.7976931348623157e308), ('f-negzero', -0.0), ('f-1e-5', 1e-5),
            ('f-2**-70', 2.0 ** -70), ('f-0.1', 0.1), ('f-1e22', 1e22), ('f-1e20', 1e20), ('f-1/3', 1 / 3),
            ('f-big-odd', 123456789012345678.0), ('std-2.675', decimal.Decimal('2.675')), ('std-1e-30', decimal.Decimal('1E-30')),
            ('std-1e30', decimal.Decimal('1E+30')), ('std-neg', decimal.Decimal('-0.000')), ('bool', True),
            ('int-big', 10 ** 40 + 1), ('int-neg', -7),
            ('std-40digits', decimal.Decimal('3.1415926535897932384626433832795028841971')),
            ('std-trailing-zeros', decimal.Decimal('9283.100060000')), ('std-35int', decimal.Decimal('12345678901234567890123456789012345'))]
    name, v = E.choice('val', vals)
    if name.startswith('std') and E.choice('low-context-precision', [False, True]):
        # the application may have lowered the precision of the stdlib decimal context: conversion stays exact
        decimal.getcontext().prec = 6
    u = E.choice('unit', [pre.METRE, pre.POUND, pre.KELVIN])
    exact = Fraction(v) if not isinstance(v, decimal.Decimal) else Fraction(str(v)) if False else Fraction(*v.as_integer_ratio())
    q = Quantity(v, u)
    E.check(q.amount == exact, 'concrete-number-held-exactly', key='ctor-concrete:' + name.split('-')[0], info=[name, u.symbol])
    E.check(isinstance(q.amount, (Decimal, Fraction)), 'concrete-number-exact-kind', key='ctor-concrete:kind', info=[name])
    for bad in (float('nan'), float('inf')):
        try:
            Quantity(bad, u)
        except (ValueError, OverflowError):
            E.ok('non-finite-float-rejected')
        except Exception as e:
            E.fail('non-finite-float-rejected', key='ctor-concrete:nonfinite:%s' % type(e).__name__)
        else:
            E.fail('non-finite-float-rejected', key='ctor-concrete:nonfinite:accepted')


def wrong_unit(E, cfg):
    import quantity.predefined as pre
    from quantity import Quantity, QuantityError
    x = E.rational('x', 'dec')
    C.expect_raises(E, lambda: pre.Mass(x, pre.METRE), QuantityError, 'unit-of-other-class-rejected')
    C.expect_raises(E, lambda: pre.Temperature(x), QuantityError, 'missing-unit-rejected')
    C.expect_raises(E, lambda: Quantity(x), QuantityError, 'generic-factory-without-unit-rejected')
    C.expect_raises(E, lambda: Quantity(x, 'm'), TypeError, 'non-unit-as-unit-rejected')
    C.expect_raises(E, lambda: Quantity([1], pre.METRE), TypeError, 'non-number-amount-rejected')
    C.expect_raises(E, lambda: pre.Mass('%s m' % x), QuantityError, 'symbol-of-other-class-rejected')


def _round_trip_checks(E, q, info):
    from quantity import Quantity
    s = str(q)
    a = q.amount
    E.check(s == '%s %s' % (a, q.unit.symbol), 'str-is-amount-blank-symbol', key='text:str-form', info=info)
    E.check(format(q) == s and '{}'.format(q) == s, 'format-without-spec-equals-str', key='text:format', info=info)
    for label, fn in (('generic', lambda: Quantity(s)), ('own-type', lambda: type(q)(s))):
        try:
            r = fn()
        except Exception as e:
            E.fail('round-trip-' + label, key='text:round-trip-raises:%s' % type(e).__name__, info=info)
            continue
        E.check(type(r) is type(q) and r.unit is q.unit, 'round-trip-%s-class-unit' % label, key='text:round-trip-class-unit',
                info=info)
        E.check(r.amount == a, 'round-trip-%s-amount' % label, key='text:round-trip-amount', info=info)
    pad = Quantity('  \t' + s + ' \t ')
    E.check(pad.unit is q.unit and pad.amount == a, 'surrounding-whitespace-ignored', key='text:whitespace', info=info)


def round_trip(E, cfg):
    from quantity import Quantity
    us = E.choice('unit', cfg['units'])
    u = C.unit(us)
    x = E.rational('x', E.choice('flav', ['dec', 'frac']))
    q = Quantity(x, u)
    _round_trip_checks(E, q, [us])
    cls = u.qty_cls
    if cls.ref_unit is not None and cls.quantum is None:
        others = [v for v in cls.units() if v is not u][:3]
        for v in others:
            # parsing with an explicit different unit equals parsing and then converting
            s = str(q)
            for label, fn in (('generic', lambda: Quantity(s, v)), ('own-type', lambda: cls(s, v))):
                r = fn()
                E.check(r.unit is v and type(r) is cls, 'explicit-unit-%s-class-unit' % label, key='text:explicit-unit-class',
                        info=[us, v.symbol])
                E.check(r.amount == Quantity(s).convert(v).amount, 'explicit-unit-%s-equals-parse-then-convert' % label,
                        key='text:explicit-unit-value', info=[us, v.symbol])
                E.check(r.amount == q.amount * C.scale(u) / C.scale(v), 'explicit-unit-%s-scale' % label,
                        key='text:explicit-unit-scale', info=[us, v.symbol])


def format_sequence(E, cfg):
    """str / format of several quantities one after the other: each text belongs to the quantity it was asked for,
    also when an equal quantity (other unit, other digits) was formatted before"""
    from decimalfp import Decimal
    from quantity import Quantity
    import quantity.predefined as pre
    x = E.rational('x', 'dec')
    case = E.choice('case', ['zero-two-units', 'equal-across-units', 'equal-scale-units', 'same-unit-other-digits',
                             'symbolic-equal-across-units'])
    if case == 'zero-two-units':
        qs = [Quantity(0, pre.METRE), Quantity(0, pre.KILOMETRE), Quantity(Decimal('0.00'), pre.MILLIMETRE)]
    elif case == 'equal-across-units':
        qs = [Quantity(1000, pre.METRE), Quantity(1, pre.KILOMETRE), Quantity(Decimal('100000'), pre.CENTIMETRE)]
    elif case == 'equal-scale-units':
        qs = [Quantity(Decimal('2.5'), pre.LITRE), Quantity(Decimal('2.5'), pre.CUBIC_DECIMETRE), Quantity(3, pre.JOULE),
              Quantity(3, pre.NEWTON_METRE)]
    elif case == 'same-unit-other-digits':
        qs = [Quantity(Decimal('2.5'), pre.KILOGRAM), Quantity(Decimal('2.50'), pre.KILOGRAM), Quantity(Fraction(5, 2), pre.KILOGRAM)]
    else:
        qs = [Quantity(x, pre.KILOMETRE), Quantity(x * 1000, pre.METRE), Quantity(x, pre.KILOMETRE)]
    spec = E.choice('spec', ['', '{a} {u}', '{u} {a}'])
    for i, q in enumerate(qs + list(reversed(qs))):
        s = str(q)
        E.check(s == '%s %s' % (q.amount, q.unit.symbol), 'str-is-amount-blank-symbol', key='format-seq:str', info=[case, i])
        if spec == '':
            E.check(format(q) == s and '{}'.format(q) == s, 'format-without-spec-equals-str', key='format-seq:format', info=[case, i])
        else:
            exp = spec.replace('{a}', str(q.amount)).replace('{u}', q.unit.symbol)
            E.check(format(q, spec) == exp, 'format-with-spec', key='format-seq:format-spec', info=[case, i, spec])
        r = Quantity(s)
        E.check(r.unit is q.unit and r.amount == q.amount, 'round-trip-in-sequence', key='format-seq:round-trip', info=[case, i])


def round_trip_user(E, cfg):
    from quantity import Quantity
    X = C.mk_cls('XLen', ref_unit_symbol='x0')
    syms = ['µx', 'kg·m/s²x', 'fl oz', 'x²', 'a/b', 'Ω', '1x', 'e', '-', '.5', 'x y']
    # symbols that are not stable under Unicode normalisation (OHM SIGN, ANGSTROM SIGN, KELVIN SIGN, combining accent)
    syms = syms + ['\u2126', 'k\u2126', '\u212b', '\u212a', 'e\u0301']
    s = E.choice('sym', syms)
    if E.choice('parsed-before-declaration', [False, True]):
        # text naming the symbol before any unit has it: rejected; the later declaration makes the same text valid
        from quantity import QuantityError
        for label, fn in (('generic', lambda: Quantity('7 ' + s)), ('own-type', lambda: X('7 ' + s)),
                          ('explicit-unit', lambda: Quantity('7 ' + s, X.ref_unit))):
            C.expect_raises(E, fn, QuantityError, 'undeclared-symbol-text-rejected-' + label, [s])
        from quantity.money import Money
        C.expect_raises(E, lambda: Quantity('100 JPY'), QuantityError, 'unregistered-currency-text-rejected')
        jpy = Money.register_currency('JPY')
        try:
            m = Quantity('100 JPY')
        except Exception as e:
            E.fail('currency-text-after-registration', key='text:late-declaration-raises:%s' % type(e).__name__, info=['JPY'])
        else:
            E.check(type(m) is Money and m.unit is jpy and m.amount == 100, 'currency-text-after-registration',
                    key='text:late-declaration', info=['JPY'])
    u = X.new_unit(s, None, Fraction(5, 2) * X.ref_unit)
    x = E.rational('x', 'dec')
    _round_trip_checks(E, Quantity(x, u), [s])
    # a symbol already used by a unit of another type cannot be taken: the first unit keeps its round trip
    import quantity.predefined as pre
    C.expect_raises(E, lambda: X.new_unit('m', None, Fraction(3) * X.ref_unit), ValueError, 'symbol-of-other-type-rejected')
    _round_trip_checks(E, Quantity(x, pre.METRE), ['m after rejected duplicate'])


def malformed_concrete(E, cfg):
    from quantity import Quantity, QuantityError
    import quantity.predefined as pre
    texts = ['', ' ', 'm', '5', '5 ', '5 xyz', 'abc m', '1/0 m', '1/0', '5  m x', '5 m x', '5m', '1 / 2 m', '1e m', '--1 m',
             '1_0 m', '1/2/3 m', '5 M', '0x10 m', '١ m', 'nan m', 'inf m', '1.2.3 m', '5\tm', '5 \tm', '5 m\n']
    t = E.choice('text', texts)
    for label, fn in (('generic', lambda: Quantity(t)), ('mass', lambda: pre.Mass(t)), ('explicit-unit', lambda: Quantity(t, pre.METRE))):
        try:
            r = fn()
        except QuantityError:
            E.ok('malformed-or-unknown-raises-quantity-error')
        except Exception as e:
            E.fail('text-never-raises-other-than-quantity-error', key='text:concrete:%s' % type(e).__name__, info=[t, label])
        else:
            E.ok('well-formed-text-accepted')


# ------------------------------------------------------------------ symbolic text
def _ref_parse(E, s, symmap):
    """the specification, written with the same string primitives: (kind, payload)"""
    from decimalfp import Decimal
    rest = s.lstrip()
    parts = rest.split(' ', 1)
    tok = parts[0]
    try:
        val = Decimal(tok)
    except (TypeError, ValueError):
        try:
            val = Fraction(tok)
        except ZeroDivisionError:
            return ('error', 'zero-denominator')
        except (TypeError, ValueError):
            return ('error', 'bad-literal')
    if len(parts) == 1:
        return ('number-only', val)
    sym = parts[1].strip()
    for k, u in symmap:
        if sym == k:
            return ('quantity', (val, u))
    return ('error', 'unknown-symbol')


def text(E, cfg):
    import quantity
    from quantity import Quantity, QuantityError
    n = cfg['len']
    # only symbols that can be spelled in the alphabet can match; the scan dict decides which
    # only symbols that can be spelled in the alphabet can match a string over it
    symmap = [(k, u) for k, u in quantity._SYMBOL_UNIT_MAP.items() if set(k) <= set(ALPHABET)]
    quantity._SYMBOL_UNIT_MAP = C.ScanDict(dict(symmap))
    s = E.string('s', n, ALPHABET)
    E.assume(len(s) == n)
    if 'first' in cfg:
        E.assume(s[0] == cfg['first'])
    if 'second' in cfg:
        E.assume(s[1] == cfg['second'])
    try:
        r = Quantity(s)
        outcome = 'quantity'
    except QuantityError:
        outcome = 'QuantityError'
    except Exception as e:
        E.fail('text-never-raises-other-than-quantity-error', key='text:symbolic:%s' % type(e).__name__)
        return
    kind, payload = _ref_parse(E, s, symmap)
    if kind == 'quantity':
        val, u = payload
        E.check(outcome == 'quantity', 'well-formed-text-accepted', key='text:symbolic:well-formed-rejected')
        if outcome == 'quantity':
            E.check(r.unit is u and type(r) is u.qty_cls, 'parsed-unit-is-the-symbols-unit', key='text:symbolic:unit')
            if u.quantum is None:
                E.check(r.amount == val, 'parsed-amount-is-the-literals-value', key='text:symbolic:amount')
            else:
                qu = Fraction(u.quantum)
                d = r.amount - val
                E.check(E.is_int(r.amount / qu) and d < qu and -qu < d, 'parsed-amount-rounded-to-quantum',
                        key='text:symbolic:amount')
    else:
        # a number without symbol needs a unit: the generic factory has none
        E.check(outcome == 'QuantityError', 'malformed-text-rejected', key='text:symbolic:malformed-accepted:' + kind)
    E.observe('outcome', outcome)
