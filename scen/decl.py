"""Declaration programs shared by C15 / C16 / C17: a small grammar of valid and invalid declaration
steps, a harness-side ledger of what was declared (with the scale each definition denotes, computed
from the declared factors), and an observation function over every directory of the library."""
from __future__ import annotations

from fractions import Fraction

from . import common as C


class Ledger:
    """what the harness itself knows about the declarations it made"""

    def __init__(self):
        self.classes = {}        # name -> class
        self.units = {}          # symbol -> (unit, class name, scale relative to class reference unit or None)
        self.vec = {}            # class name -> exponent vector over base class names
        self.log = []


# every step: (name, requires (class names), kind 'valid' | exception class name, function(ledger) -> None)
def _t_base(name, sym, **kw):
    def f(L):
        cls = C.mk_cls(name, ref_unit_symbol=sym, **kw)
        L.classes[name] = cls
        L.vec[name] = {name: 1}
        L.units[sym] = (cls.ref_unit, name, Fraction(1))
    return f


def _t_noref(name):
    def f(L):
        cls = C.mk_cls(name)
        L.classes[name] = cls
        L.vec[name] = {name: 1}
    return f


def _t_noref_derived(name, expr, vec):
    def f(L):
        cls = C.mk_cls(name, define_as=expr(L.classes))
        L.classes[name] = cls
        L.vec[name] = dict(vec)
    return f


def _t_derived(name, expr, vec, refsym=None, gen=None):
    def f(L):
        define_as = expr(L.classes)
        kw = {'ref_unit_symbol': refsym} if refsym else {}
        cls = C.mk_cls(name, define_as=define_as, **kw)
        L.classes[name] = cls
        L.vec[name] = dict(vec)
        sym = cls.ref_unit.symbol
        L.units[sym] = (cls.ref_unit, name, Fraction(1))
    return f


def _u_scaled(cname, sym, factor, base_sym):
    def f(L):
        cls = L.classes[cname]
        base, _, s = L.units[base_sym]
        u = cls.new_unit(sym, sym + ' name', C.num(factor) * base)
        L.units[sym] = (u, cname, Fraction(factor) * s)
    return f


def _u_scaled_noref(cname, sym, factor, base_sym):
    def f(L):
        cls = L.classes[cname]
        base = L.units[base_sym][0]
        u = cls.new_unit(sym, sym + ' name', C.num(factor) * base)
        L.units[sym] = (u, cname, None)
    return f


def _u_derive(cname, sym, base_syms, exps, explicit_symbol=True):
    def f(L):
        cls = L.classes[cname]
        bases = [L.units[b][0] for b in base_syms]
        u = cls.derive_unit_from(*bases, symbol=sym if explicit_symbol else None)
        s = Fraction(1)
        for b, e in zip(base_syms, exps):
            bs = L.units[b][2]
            s *= bs ** e if e >= 0 else 1 / bs ** (-e)
        L.units[u.symbol] = (u, cname, s)
    return f


def _u_term(cname, sym, items):
    def f(L):
        from quantity.term import Term
        cls = L.classes[cname]
        titems = []
        s = Fraction(1)
        for el, e in items:
            if el in L.units:
                titems.append((L.units[el][0], e))
                f_ = L.units[el][2]
            else:
                titems.append((C.num(el), e))
                f_ = Fraction(el)
            s *= f_ ** e if e >= 0 else 1 / f_ ** (-e)
        u = cls.new_unit(sym, None, Term(titems))
        L.units[sym] = (u, cname, s)
    return f


def _u_term_int(cname, sym, items, scale):
    """term with plain Python ints as numeric items (items: (int | unit symbol, exponent)); scale given by the caller"""
    def f(L):
        from quantity.term import Term
        cls = L.classes[cname]
        titems = [((L.units[el][0] if isinstance(el, str) else el), e) for el, e in items]
        u = cls.new_unit(sym, None, Term(titems))
        L.units[sym] = (u, cname, scale)
    return f


def _u_plain(cname, sym):
    def f(L):
        u = L.classes[cname].new_unit(sym, sym + ' name')
        L.units[sym] = (u, cname, None)
    return f


def _call(fn):
    return fn


VALID = [
    ('type-A', (), _t_base('DA', 'a0')),
    ('type-B', (), _t_base('DB', 'b0', ref_unit_name='bee zero')),
    ('type-AperB', ('DA', 'DB'), _t_derived('DAB', lambda c: c['DA'] / c['DB'], {'DA': 1, 'DB': -1}, gen='a0/b0')),
    ('type-Asq', ('DA',), _t_derived('DA2', lambda c: c['DA'] ** 2, {'DA': 2}, refsym='sqa')),
    ('type-noref', (), _t_noref('DW')),
    ('type-quantized', (), _t_base('DQ', 'q0', quantum=Fraction(1, 4))),
    ('type-AperW', ('DA', 'DW'), _t_noref_derived('DAW', lambda c: c['DA'] / c['DW'], {'DA': 1, 'DW': -1})),
    ('type-ABB', ('DAB', 'DB'), _t_derived('DABB', lambda c: c['DAB'] / c['DB'], {'DA': 1, 'DB': -2}, gen='a0/b0²')),
    ('unit-a1', ('DA',), _u_scaled('DA', 'a1', '3', 'a0')),
    ('unit-a2', ('DA', 'a1'), _u_scaled('DA', 'a2', '1/7', 'a1')),
    ('unit-b1', ('DB',), _u_scaled('DB', 'b1', '60', 'b0')),
    ('unit-ab-derive', ('DAB', 'a1', 'b1'), _u_derive('DAB', 'a1pb1', ['a1', 'b1'], [1, -1])),
    ('unit-ab-derive-gensym', ('DAB', 'a1'), _u_derive('DAB', None, ['a1', 'b0'], [1, -1], explicit_symbol=False)),
    ('unit-ab-term', ('DAB', 'a1'), _u_term('DAB', 'abt', [('a1', 1), ('b0', -1)])),
    ('unit-ab-term-num', ('DAB', 'a1', 'b1'), _u_term('DAB', 'abn', [('2.5', 1), ('a1', 1), ('b1', -1)])),
    ('unit-a-term-int-neg', ('DA', 'a1'), _u_term_int('DA', 'a1k', [(1000, -1), ('a1', 1)], Fraction(3, 1000))),
    ('unit-a-term-int-neg3', ('DA', 'a1'), _u_term_int('DA', 'a1c', [(10, -3), ('a1', 1), (7, 1)], Fraction(21, 1000))),
    ('unit-sq-derive', ('DA2', 'a1'), _u_derive('DA2', 'a1²x', ['a1'], [2])),
    ('unit-sq-term3', ('DA2', 'a1'), _u_term('DA2', 'sq3', [('a0', -1), ('a1', 3), ('a0', 0), ('a1', -1), ('a0', 1)])),
    ('unit-w1', ('DW',), _u_plain('DW', 'w1')),
    ('unit-w2', ('DW',), _u_plain('DW', 'w 2')),
    # units of a reference-less type declared as a multiple of another of its units (scale not comparable: None)
    ('unit-w-alias', ('DW', 'w1'), _u_scaled_noref('DW', 'w1a', '1', 'w1')),
    ('unit-w-multiple', ('DW', 'w1'), _u_scaled_noref('DW', 'w1m', '5', 'w1')),
    ('unit-q1', ('DQ',), _u_scaled('DQ', 'q1', '8', 'q0')),
    ('unit-nonascii', ('DA',), _u_scaled('DA', 'µa·x/²', '0.001', 'a0')),
]


def _bad(fn):
    return fn


def _inv_dup_dim(refsym):
    def f(L):
        kw = {'ref_unit_symbol': refsym} if refsym else {}
        C.mk_cls('DABdup', define_as=L.classes['DA'] / L.classes['DB'], **kw)
    return f


def _inv_dup_dim_equiv(L):
    # same dimension written differently: (A**2 / B) / A
    from quantity.term import Term
    C.mk_cls('DABdup2', define_as=Term(((L.classes['DA'], 2), (L.classes['DB'], -1), (L.classes['DA'], -1))),
             ref_unit_symbol='dup2')


def _inv_dup_dim_noref(L):
    C.mk_cls('DAWdup', define_as=L.classes['DA'] / L.classes['DW'], ref_unit_symbol='awdup')


def _inv_dup_dim_noref_nosym(L):
    C.mk_cls('DAWdup2', define_as=L.classes['DW'] ** -1 * L.classes['DA'])


def _inv_type_dup_symbol(L):
    C.mk_cls('DC', ref_unit_symbol='a0')


def _inv_type_dup_predefined_symbol(L):
    C.mk_cls('DC', ref_unit_symbol='kg')


def _inv_unit_dup_symbol(L):
    L.classes['DA'].new_unit('a0', None, 5 * L.units['a0'][0])


def _inv_unit_dup_symbol_other_type(L):
    L.classes['DB'].new_unit('a0', None, 5 * L.units['b0'][0])


def _inv_unit_dup_predefined(L):
    L.classes['DA'].new_unit('km', None, 5 * L.units['a0'][0])


def _inv_unit_empty_symbol(L):
    L.classes['DA'].new_unit('', None, 5 * L.units['a0'][0])


def _inv_unit_nonstring_symbol(L):
    L.classes['DA'].new_unit(17, None, 5 * L.units['a0'][0])


def _inv_unit_other_class_qty(L):
    L.classes['DA'].new_unit('ax', None, 5 * L.units['b0'][0])


def _inv_unit_term_other_dim(L):
    from quantity.term import Term
    L.classes['DA'].new_unit('ay', None, Term(((L.units['a0'][0], 1), (L.units['b0'][0], -1))))


def _inv_unit_term_undefined(L):
    from quantity.term import Term
    L.classes['DA'].new_unit('az', None, Term(((L.units['a0'][0], 3), (L.units['b0'][0], 2))))


def _inv_unit_term_dimensionless(L):
    from quantity.term import Term
    L.classes['DA'].new_unit('a1x', None, Term(((L.units['a0'][0], 1), (1000, 1), (L.units['a0'][0], -1))))


def _inv_unit_bad_definition(L):
    L.classes['DA'].new_unit('aw', None, 5)


def _inv_derive_wrong_count(L):
    L.classes['DAB'].derive_unit_from(L.units['a0'][0], symbol='dx')


def _inv_derive_too_many(L):
    L.classes['DAB'].derive_unit_from(L.units['a0'][0], L.units['b0'][0], L.units['a0'][0], symbol='dw')


def _inv_derive_wrong_type(L):
    L.classes['DAB'].derive_unit_from(L.units['b0'][0], L.units['a0'][0], symbol='dy')


def _inv_derive_on_base(L):
    L.classes['DA'].derive_unit_from(L.units['a0'][0], symbol='dz')


def _inv_derive_nonunit(L):
    L.classes['DAB'].derive_unit_from(L.units['a0'][0], 5, symbol='dv')


def _inv_derive_empty_symbol(L):
    # (units whose generated symbol would be free, so that only the empty symbol can be the reason)
    L.classes['DAB'].derive_unit_from(L.units['a1'][0], L.units['b0'][0], symbol='')


def _inv_derive_dup_symbol(L):
    L.classes['DAB'].derive_unit_from(L.units['a0'][0], L.units['b0'][0], symbol='b0')


def _inv_type_def_numeric_factor(L):
    C.mk_cls('DKF', define_as=1000 * (L.classes['DA'] / L.classes['DB']), ref_unit_symbol='kf0')


def _inv_type_def_of_units(L):
    from quantity.term import Term
    C.mk_cls('DKU', define_as=Term(((L.units['a0'][0], 1), (L.units['b0'][0], -2))), ref_unit_symbol='ku0')


def _inv_type_def_numeric_factor_gensym(L):
    C.mk_cls('DKG', define_as=(L.classes['DA'] ** 3) * 2)


def _opt_type_quantum_zero(L):
    C.mk_cls('DZ', ref_unit_symbol='z0', quantum=0)


def _opt_type_quantum_negative(L):
    C.mk_cls('DZN', ref_unit_symbol='zn0', quantum=Fraction(-1, 4))


def _opt_type_quantum_zero_derived(L):
    C.mk_cls('DZD', define_as=L.classes['DA'] ** 3, ref_unit_symbol='zd0', quantum=0)


def _inv_type_unknown_keyword(L):
    C.mk_cls('DK', ref_unit_symbol='kw0', ref_unit_nmae='Kay')


def _inv_type_unknown_keyword_derived(L):
    C.mk_cls('DKD', define_as=L.classes['DA'] ** 3, ref_unit_symbol='kw3', quantun=1)


def _inv_type_quantum_without_ref_unit(L):
    C.mk_cls('DQ', quantum=1)


# (name, requires, expected exception class name, function, symbols that must stay unknown)
INVALID = [
    ('dup-dimension', ('DAB',), 'ValueError', _inv_dup_dim(None), []),
    ('dup-dimension-with-ref-symbol', ('DAB',), 'ValueError', _inv_dup_dim('abdup'), ['abdup']),
    ('dup-dimension-equivalent-term', ('DAB',), 'ValueError', _inv_dup_dim_equiv, ['dup2']),
    ('dup-dimension-over-reference-less-type', ('DAW',), 'ValueError', _inv_dup_dim_noref, ['awdup']),
    ('dup-dimension-over-reference-less-type-no-symbol', ('DAW',), 'ValueError', _inv_dup_dim_noref_nosym, []),
    ('type-def-numeric-factor', ('DA', 'DB'), 'AssertionError', _inv_type_def_numeric_factor, ['kf0']),
    ('type-def-of-units', ('DA', 'DB'), 'AssertionError', _inv_type_def_of_units, ['ku0']),
    ('type-def-numeric-factor-gensym', ('DA',), 'AssertionError', _inv_type_def_numeric_factor_gensym, ['a0³']),
    # 'Optional': the library may accept or reject these; if it rejects, nothing may be left behind
    ('type-quantum-zero', (), 'Optional', _opt_type_quantum_zero, ['z0']),
    ('type-quantum-negative', (), 'Optional', _opt_type_quantum_negative, ['zn0']),
    ('type-quantum-zero-derived', ('DA',), 'Optional', _opt_type_quantum_zero_derived, ['zd0']),
    ('type-unknown-keyword', (), 'AssertionError', _inv_type_unknown_keyword, ['kw0']),
    ('type-unknown-keyword-derived', ('DA',), 'AssertionError', _inv_type_unknown_keyword_derived, ['kw3']),
    ('type-quantum-without-ref-unit', (), 'AssertionError', _inv_type_quantum_without_ref_unit, []),
    ('type-dup-symbol', ('DA',), 'ValueError', _inv_type_dup_symbol, []),
    ('type-dup-predefined-symbol', (), 'ValueError', _inv_type_dup_predefined_symbol, []),
    ('unit-dup-symbol', ('DA',), 'ValueError', _inv_unit_dup_symbol, []),
    ('unit-dup-symbol-other-type', ('DA', 'DB'), 'ValueError', _inv_unit_dup_symbol_other_type, []),
    ('unit-dup-predefined', ('DA',), 'ValueError', _inv_unit_dup_predefined, []),
    ('unit-empty-symbol', ('DA',), 'ValueError', _inv_unit_empty_symbol, ['']),
    ('unit-nonstring-symbol', ('DA',), 'TypeError', _inv_unit_nonstring_symbol, []),
    ('unit-other-class-quantity', ('DA', 'DB'), 'TypeError', _inv_unit_other_class_qty, ['ax']),
    ('unit-term-other-dimension', ('DA', 'DB', 'DAB'), 'ValueError', _inv_unit_term_other_dim, ['ay']),
    ('unit-term-undefined', ('DA', 'DB'), 'ValueError', _inv_unit_term_undefined, ['az']),
    ('unit-term-dimensionless', ('DA',), 'ValueError', _inv_unit_term_dimensionless, ['a1x']),
    ('unit-bad-definition', ('DA',), 'TypeError', _inv_unit_bad_definition, ['aw']),
    ('derive-wrong-count', ('DAB',), 'ValueError', _inv_derive_wrong_count, ['dx']),
    ('derive-wrong-type', ('DAB',), 'ValueError', _inv_derive_wrong_type, ['dy']),
    ('derive-too-many', ('DAB',), 'ValueError', _inv_derive_too_many, ['dw']),
    ('derive-on-base', ('DA',), 'TypeError', _inv_derive_on_base, ['dz']),
    ('derive-nonunit', ('DAB',), 'TypeError', _inv_derive_nonunit, ['dv']),
    ('derive-empty-symbol', ('DAB', 'a1'), 'ValueError', _inv_derive_empty_symbol, ['']),
    ('derive-dup-symbol', ('DAB',), 'ValueError', _inv_derive_dup_symbol, []),
]

VALID_INDEX = {v[0]: i for i, v in enumerate(VALID)}


def requires_met(L, req):
    for r in req:
        if r not in L.classes and r not in L.units:
            return False
    return True


def produced_names(step_name):
    """names (class / unit) a valid step adds to the ledger, to avoid declaring twice"""
    return {'type-AperW': 'DAW', 'type-A': 'DA', 'type-B': 'DB', 'type-AperB': 'DAB', 'type-Asq': 'DA2', 'type-noref': 'DW',
            'type-quantized': 'DQ', 'type-ABB': 'DABB', 'unit-a1': 'a1', 'unit-a2': 'a2', 'unit-b1': 'b1',
            'unit-ab-derive': 'a1pb1', 'unit-ab-derive-gensym': 'a1/b0', 'unit-ab-term': 'abt',
            'unit-ab-term-num': 'abn', 'unit-sq-derive': 'a1²x', 'unit-sq-term3': 'sq3', 'unit-w1': 'w1',
            'unit-w2': 'w 2', 'unit-q1': 'q1', 'unit-nonascii': 'µa·x/²', 'unit-w-alias': 'w1a',
            'unit-w-multiple': 'w1m', 'unit-a-term-int-neg': 'a1k', 'unit-a-term-int-neg3': 'a1c'}[step_name]


# the closure of prerequisites, in a valid order
PREREQ_ORDER = ['type-A', 'type-B', 'type-AperB', 'type-Asq', 'type-noref', 'type-quantized', 'type-AperW', 'unit-a1', 'unit-b1',
                'unit-w1']


def ensure(L, names):
    """declare (validly) whatever of `names` is missing, prerequisites first"""
    for step in PREREQ_ORDER:
        nm = produced_names(step)
        if nm in names and nm not in L.classes and nm not in L.units:
            _, req, fn = VALID[VALID_INDEX[step]]
            ensure(L, set(req))
            fn(L)
            L.log.append(step)


# ------------------------------------------------------------------ observation
def observe_directories(extra_symbols=()):
    """a hashable snapshot of every directory of the library"""
    import quantity
    from quantity import Quantity, QuantityMeta

    # the classes a user can reach: those in the class registry (a rejected class object that lingers in
    # type.__subclasses__() until it is garbage collected is not observable through the library)
    classes = [Quantity] + [c for bucket in QuantityMeta._registry._item_list for c in bucket if c is not Quantity]
    sym_map = tuple(sorted((s, u.qty_cls.__name__, id(u)) for s, u in quantity._SYMBOL_UNIT_MAP.items()))
    per_class = tuple(sorted((c.__name__, id(c), tuple(c._unit_map.keys()), len(c), tuple(id(x) for x in c._converters))
                             for c in classes))
    reg = QuantityMeta._registry
    treg = quantity._TERM_UNIT_MAP
    reg_state = (len(reg), len(reg._item_def_map), tuple(len(b) for b in reg._item_list),
                 len(treg), len(treg._item_def_map), tuple(len(b) for b in treg._item_list))
    parse = []
    for s in extra_symbols:
        try:
            q = Quantity('1 %s' % s)
            parse.append((s, type(q).__name__, q.unit.symbol))
        except Exception as e:
            parse.append((s, type(e).__name__))
    cache = len(quantity._UNIT_OP_CACHE)
    return (sym_map, per_class, reg_state, tuple(parse), cache)


def check_directory(E, L, a, tag):
    """C15 invariants over everything the ledger declared (plus the predefined catalogue classes)"""
    from quantity import Quantity, Unit
    import quantity

    # the quantity types a user can reach: the predefined catalogue, Money (if imported) and the ledger's
    classes = list(C.all_classes()) + list(L.classes.values())
    import sys
    if 'quantity.money' in sys.modules:
        classes.append(sys.modules['quantity.money'].Money)
    for sym, (u, cname, scale) in L.units.items():
        cls = L.classes[cname]
        E.check(Unit(sym) is u, 'symbol-finds-identical-unit', key='dir:symbol-lookup:' + tag, info=sym)
        E.check(u.symbol == sym and u.qty_cls is cls, 'unit-knows-symbol-and-type', key='dir:unit-attrs:' + tag, info=sym)
        E.check(quantity._SYMBOL_UNIT_MAP.get(sym) is u, 'global-map-entry', key='dir:global-map:' + tag, info=sym)
        listed = [c.__name__ for c in classes if sym in c]
        E.check(listed == [cname], 'listed-by-exactly-its-type', key='dir:listed-by:' + tag, info=[sym, listed])
        E.check(sym not in Quantity and u not in Quantity.units(), 'not-listed-by-the-abstract-base-class',
                key='dir:listed-by-base-class-Quantity', info=sym)
        E.check(cls.get_unit_by_symbol(sym) is u, 'type-lookup-by-symbol', key='dir:get-unit-by-symbol:' + tag, info=sym)
        q = Quantity(a, u)
        E.check(type(q) is cls, 'generic-factory-dispatches-to-unit-type', key='dir:factory-type:' + tag, info=sym)
        E.check(type(cls(a, u)) is cls, 'own-factory', key='dir:own-factory:' + tag, info=sym)
        if sym == sym.strip():
            qs = Quantity('%s %s' % (a, sym))
            E.check(type(qs) is cls and qs.unit is u, 'string-factory-dispatches-to-unit-type',
                    key='dir:string-factory:' + tag, info=sym)
        # comparing two units of one type answers (never raises), and a unit equals itself
        for sym2, (u2, cname2, _) in L.units.items():
            if cname2 == cname:
                try:
                    eq = (u == u2)
                except Exception as e:
                    E.fail('unit-equality-answers', key='dir:unit-eq-raises:%s:%s' % (type(e).__name__, tag), info=[sym, sym2])
                else:
                    E.check(eq is True if u is u2 else isinstance(eq, bool), 'unit-equality-answers',
                            key='dir:unit-eq:' + tag, info=[sym, sym2])
        if scale is not None:
            ref = cls.ref_unit
            E.check(ref is not None, 'has-reference-unit')
            r = q.convert(ref)
            E.check(r.amount == q.amount * scale, 'scale-is-what-the-definition-denotes', key='dir:scale:' + tag,
                    info=[sym, str(scale)])
    for cname, cls in L.classes.items():
        us = cls.units()
        E.check(len(us) == len(set(id(x) for x in us)) == len(cls), 'units-listed-once', key='dir:units-dup:' + tag,
                info=cname)
        mine = sorted(s for s, (u, cn, _) in L.units.items() if cn == cname)
        E.check(sorted(x.symbol for x in us) == mine, 'type-lists-exactly-its-units', key='dir:units-list:' + tag,
                info=[cname, sorted(x.symbol for x in us), mine])
        E.check(sorted(iter(cls)) == mine, 'type-iterates-its-symbols', key='dir:iter:' + tag, info=cname)
        vec = L.vec[cname]
        if len(vec) > 1 or list(vec.values()) != [1]:
            # derived type: reference unit is the product of the base types' reference units
            ref = cls.ref_unit
            if ref is not None:
                dv = {}
                for el, e in ref.definition.items:
                    for bk, be in L.vec.get(el.qty_cls.__name__, {el.qty_cls.__name__: 1}).items():
                        dv[bk] = dv.get(bk, 0) + be * e
                    E.check(el is el.qty_cls.ref_unit, 'derived-reference-unit-built-from-reference-units',
                            key='dir:ref-unit-def:' + tag, info=cname)
                dv = {k: v for k, v in dv.items() if v != 0}
                E.check(dv == vec, 'derived-reference-unit-has-class-dimension', key='dir:ref-unit-dim:' + tag, info=cname)
