"""C11 -- money converter yields the right rate for every update history and date."""
from __future__ import annotations

import datetime
from fractions import Fraction

from . import common as C

PROPERTY = 'C11'
BUDGET = {'quick': 200, 'thorough': 1200}
LAST_CONFIG_INFO = {}

META = {
    'bounds': ['effective date: symbolic, every calendar-valid date of the years 1..9999 (or supplied by the default-'
               'date callable, stubbed to return the symbolic date); money amount: unbounded rational',
               'update histories: <= 2 (quick) / 3 (thorough) calls, one more from the two most overlapping entries of the month / day pools, drawn from a pool per validity kind (all accepted '
               'spellings, repeated keys with different rates, unit multiples 1 and 100, entries for other periods, one '
               'call of another kind, invalid validities, a bad rate spec), 4 currencies (base EUR; USD, HKD, JPY)',
               'look-ups: 9 ordered currency pairs (direct, inverse, cross, identical)'],
    'outside_bounds': ['symbolic validities in update() (validities are concrete in every spelling)',
                       'histories longer than 4, more than 4 currencies',
                       'triangulated quotients below 10^-6 (rejected by ExchangeRate; pool rates are within 10^-3..10^3)'],
    'stubs': ['MoneyConverter._rate_dict is a ScanDict (look-up scans the keys and splits on symbolic date equalities)',
              'get_dflt_effective_date: documented injection point, returns the symbolic date',
              'Decimal(x, precision) rounding contract'],
    'assumptions': ['reference model: dict (period, currency) -> last written rate'],
}
META['bounds'].append('two histories per validity kind with look-ups of 3 pairs between the updates')
META['bounds'].append('history pools also hold an update whose second rate specification is rejected (base currency as term, zero rate, unknown code)')

# pool entries: (validity, [(currency, amount, multiple), ...]); every amount is unique
D = datetime.date
POOLS = {
    'none': [(None, [('USD', '1.10', 1), ('HKD', '8.51', 1)]), (None, [('USD', '1.11', 1)]),
             (None, [('JPY', '16251', 100)]), (None, [('HKD', '8.52', 1), ('JPY', '163.53', 1)])],
    'year': [(2024, [('USD', '1.20', 1), ('HKD', '8.61', 1)]), ('2024', [('USD', '1.21', 1)]),
             (2023, [('USD', '1.22', 1), ('JPY', '16262', 100)]), (9999, [('HKD', '8.63', 1)]),
             (1, [('USD', '1.24', 1)]), ('2023', [('HKD', '8.65', 1)])],
    'month': [((2024, 2), [('USD', '1.30', 1), ('HKD', '8.71', 1)]), ('2024-02', [('USD', '1.31', 1)]),
              ((2024, 3), [('USD', '1.32', 1), ('JPY', '16372', 100)]), ((2023, 12), [('HKD', '8.73', 1)]),
              ('2023-12', [('USD', '1.34', 1)]), ((2023, 2), [('USD', '1.35', 1)])],
    'day': [(D(2024, 2, 29), [('USD', '1.40', 1), ('HKD', '8.81', 1)]), ('2024-02-29', [('USD', '1.41', 1)]),
            (D(2024, 3, 1), [('USD', '1.42', 1), ('JPY', '16482', 100)]), ('2023-12-31', [('HKD', '8.83', 1)]),
            (D(2024, 2, 28), [('USD', '1.44', 1)]), (D(2023, 2, 28), [('USD', '1.45', 1)])],
}
OTHER_KIND = {'none': (2024, [('USD', '2.01', 1)]), 'year': ((2024, 2), [('USD', '2.02', 1)]),
              'month': (D(2024, 2, 29), [('USD', '2.03', 1)]), 'day': (None, [('USD', '2.04', 1)])}
INVALID = {'year': [(10000, 'ValueError'), ('abcd', 'ValueError'), (0, 'ValueError')],
           'month': [((2024, 13), 'ValueError'), ('2024-00', 'ValueError'), ((2024, 0), 'ValueError')],
           'day': [('2024-02-30', 'ValueError'), ('2023-02-29', 'ValueError'), ('2024-13-01', 'ValueError')],
           'none': [('a-b-c-d', 'ValueError'), (3.5, 'ValueError')]}
CURS = ['EUR', 'USD', 'HKD', 'JPY']
PAIRS = [('EUR', 'USD'), ('USD', 'EUR'), ('USD', 'HKD'), ('HKD', 'JPY'), ('JPY', 'EUR'), ('EUR', 'HKD'), ('EUR', 'EUR'),
         ('USD', 'USD'), ('JPY', 'USD')]


MID_PAIRS = [('USD', 'EUR'), ('EUR', 'USD'), ('USD', 'HKD')]


def setup(mode):
    C.import_catalogue()
    import quantity.money  # noqa: F401


def jobs(tier, seed):
    out = []
    depth = 2 if tier == 'quick' else 3
    for kind in POOLS:
        n = len(POOLS[kind]) + 3
        for first in range(n):
            for dflt in (False, True) if first < 2 else (False,):
                dep = depth
                if first < 2 and not dflt and kind in ('month', 'day'):
                    dep = depth + 1          # deeper histories from the two most overlapping entries
                out.append({'fn': 'history', 'cfg': {'kind': kind, 'first': first, 'depth': dep, 'default_date': dflt},
                            'opts': {'budget_s': 200 if tier == 'quick' else 1200}})
        for first in (0, 1):
            out.append({'fn': 'history', 'cfg': {'kind': kind, 'first': first, 'depth': depth, 'default_date': False, 'mid': True},
                        'opts': {'budget_s': 200 if tier == 'quick' else 1200}})
    out.append({'fn': 'empty_converter', 'cfg': {}})
    for kind in ('year', 'month', 'day'):
        out.append({'fn': 'moving_clock', 'cfg': {'kind': kind}})
    out.append({'fn': 'history', 'cfg': {'kind': 'month', 'first': 0, 'depth': 1, 'default_date': False, 'canary': True},
                'canary': True})
    LAST_CONFIG_INFO.clear()
    LAST_CONFIG_INFO.update({'kinds': 4, 'history_depth': depth, 'pool_sizes': {k: len(v) + 2 for k, v in POOLS.items()},
                             'exhaustive': True})
    return out


def _period_of(validity):
    """normalised period key of a pool validity (own code)"""
    if validity is None:
        return ('none',)
    if isinstance(validity, datetime.date):
        return ('day', validity.year, validity.month, validity.day)
    if isinstance(validity, tuple):
        return ('month', int(validity[0]), int(validity[1]))
    if isinstance(validity, int):
        return ('year', validity)
    parts = validity.split('-')
    if len(parts) == 1:
        return ('year', int(parts[0]))
    if len(parts) == 2:
        return ('month', int(parts[0]), int(parts[1]))
    return ('day', int(parts[0]), int(parts[1]), int(parts[2]))


def _contains(E, period, d):
    """formula: the period contains date d"""
    if period[0] == 'none':
        return True
    if period[0] == 'year':
        return d.year == period[1]
    if period[0] == 'month':
        return E.And(d.year == period[1], d.month == period[2])
    return E.And(d.year == period[1], d.month == period[2], d.day == period[3])


def _snapshot(conv):
    return (sorted((repr(k[0]), getattr(k[1], 'symbol', repr(k[1])), str(v.rate)) for k, v in dict.items(conv._rate_dict)),
            conv._type_of_validity)


def history(E, cfg):
    from decimalfp import Decimal
    from quantity import UnitConversionError
    from quantity.money import ExchangeRate, Money, MoneyConverter
    cur = {c: Money.register_currency(c) for c in CURS}
    d = E.date('d')
    if cfg['default_date']:
        conv = MoneyConverter(cur['EUR'], get_dflt_effective_date=lambda: d)
    else:
        conv = MoneyConverter(cur['EUR'])
    conv._rate_dict = C.ScanDict()
    kind = cfg['kind']
    pool = list(POOLS[kind]) + ['other-kind', 'invalid', 'bad-spec']
    ref = {}                    # (period, currency code) -> Fraction rate
    ref_kind = None
    a = E.rational('a', 'dec')
    for step in range(cfg['depth']):
        if cfg.get('mid') and step >= 1:
            # look-ups between the updates (an answer given earlier must not stick)
            for x, y in MID_PAIRS:
                _lookup(E, cfg, conv, cur, ref, d, a, x, y)
        idx = cfg['first'] if step == 0 else E.choice('u%d' % step, list(range(len(pool))))
        entry = pool[idx]
        before = _snapshot(conv)
        if entry == 'other-kind':
            validity, specs = OTHER_KIND[kind]
            if ref_kind is None or ref_kind == _period_of(validity)[0]:
                # first update (or same kind as the first): accepted, fixes the kind
                conv.update(validity, [(cur[c], Decimal(a), m) for c, a, m in specs])
                ref_kind = _period_of(validity)[0]
                for c, a, m in specs:
                    ref[(_period_of(validity), c)] = Fraction(a) / m
            else:
                C.expect_raises(E, lambda: conv.update(validity, [(cur[c], Decimal(a), m) for c, a, m in specs]),
                                ValueError, 'mixed-validity-kind-rejected')
                E.check(_snapshot(conv) == before, 'rejected-update-leaves-converter-unchanged',
                        key='update:mixed-kind-changed-converter')
        elif entry == 'bad-spec':
            # a valid validity, but one of the rate specifications (not the first) is rejected: nothing is stored
            validity = POOLS[kind][0][0]
            bad = E.choice('badspec%d' % step, [(cur['EUR'], Decimal('1.0'), 1), (cur['USD'], Decimal(0), 1), ('QQQ', '1.3', 1)])
            specs_ = [(cur['HKD'], Decimal('9.99'), 1), bad, (cur['JPY'], Decimal('99.9'), 1)]
            if ref_kind is None or ref_kind == _period_of(validity)[0]:
                C.expect_raises(E, lambda: conv.update(validity, specs_), ValueError, 'update-with-bad-spec-rejected')
                E.check(_snapshot(conv) == before, 'rejected-update-leaves-converter-unchanged',
                        key='update:bad-spec-changed-converter', info=[repr(bad[1])])
        elif entry == 'invalid':
            bad = E.choice('bad%d' % step, INVALID[kind])
            C.expect_raises(E, lambda: conv.update(bad[0], [(cur['USD'], Decimal('3.33'), 1)]), ValueError,
                            'invalid-validity-rejected', [repr(bad[0])])
            E.check(_snapshot(conv) == before, 'rejected-update-leaves-converter-unchanged',
                    key='update:invalid-validity-changed-converter', info=[repr(bad[0])])
        else:
            validity, specs = entry
            if ref_kind is not None and _period_of(validity)[0] != ref_kind:
                C.expect_raises(E, lambda: conv.update(validity, [(cur[c], Decimal(a), m) for c, a, m in specs]),
                                ValueError, 'mixed-validity-kind-rejected')
                E.check(_snapshot(conv) == before, 'rejected-update-leaves-converter-unchanged',
                        key='update:mixed-kind-changed-converter')
            else:
                spec_kind = E.choice('speckind%d' % step, ['currency-decimal', 'code-string']) if step == 0 else 'currency-decimal'
                if spec_kind == 'code-string':
                    conv.update(validity, [(c, a, m) for c, a, m in specs])
                else:
                    conv.update(validity, iter([(cur[c], Decimal(a), m) for c, a, m in specs]))
                ref_kind = _period_of(validity)[0]
                for c, a, m in specs:
                    ref[(_period_of(validity), c)] = Fraction(a) / m
        stop = E.choice('stop%d' % step, [False, True]) if step < cfg['depth'] - 1 else True
        if stop:
            break
    # ---- look-ups
    for x, y in (MID_PAIRS + [('HKD', 'JPY')] if cfg.get('mid') else PAIRS):
        _lookup(E, cfg, conv, cur, ref, d, a, x, y)


def _own_rate(x):
    """the rate a normalised exchange rate holds for the exact positive rate x (own computation, C09's normal form):
    the unit multiple is the smallest power of ten that brings the term amount to at least 0.1, the amount is rounded
    half-even to six decimals"""
    x = Fraction(x)
    k = 0
    while x * 10 ** k < Fraction(1, 10):
        k += 1
    amount = Fraction(round(x * 10 ** (k + 6)), 10 ** 6)
    return amount / 10 ** k


def _lookup(E, cfg, conv, cur, ref, d, a, x, y):
    from quantity import UnitConversionError
    from quantity.money import ExchangeRate, Money, MoneyConverter
    args = () if cfg['default_date'] else (d,)
    info = [x, y, sorted('%s:%s=%s' % (k[0], k[1], v) for k, v in ref.items())]
    try:
        r = conv.get_rate(cur[x], cur[y], *args)
    except Exception as e:
        E.fail('get-rate-does-not-raise', key='get_rate:%s:%s' % (type(e).__name__, 'same-currency' if x == y else 'pair'),
               info=info)
        return
    # expected from the reference model, per candidate period
    def base_rate_cases(code):
        """[(condition formula, rate)] for base -> code, conditions are mutually exclusive"""
        return [(_contains(E, k[0], d), v) for k, v in ref.items() if k[1] == code]

    def none_expected(codes):
        conds = []
        for code in codes:
            conds.append(E.Not(E.Or(False, *[c for c, _ in base_rate_cases(code)])))
        return E.Or(False, *conds)

    if x == y:
        E.check(r is not None and r.rate == 1, 'same-currency-rate-is-one', key='get_rate:same-currency-not-one', info=info)
        return
    needed = [c for c in (x, y) if c != 'EUR']
    if r is None:
        E.check(none_expected(needed), 'none-only-when-an-entry-is-missing', key='get_rate:none-although-entries-exist', info=info)
        C.expect_raises(E, lambda: conv(Money(a, cur[x]), cur[y], *args), UnitConversionError, 'call-raises-when-no-rate')
        return
    E.check(E.Not(none_expected(needed)), 'rate-only-when-all-entries-exist', key='get_rate:rate-although-entry-missing',
            info=info)
    E.check(r.unit_currency is cur[x] and r.term_currency is cur[y], 'rate-direction', key='get_rate:direction', info=info)
    half = Fraction(5, 10 ** 7)
    if x == 'EUR':
        for cond, v in base_rate_cases(y):
            E.check(E.Implies(cond, r.rate == v), 'base-rate-is-most-recent-entry-of-period', key='get_rate:base-rate', info=info)
    elif y == 'EUR':
        for cond, v in base_rate_cases(x):
            # inverted(): reciprocal stored with six digits at the normalised multiple
            E.check(E.Implies(cond, r.rate == _own_rate(1 / v)), 'inverse-rate-towards-base', key='get_rate:inverse-rate', info=info)
    else:
        for cx, vx in base_rate_cases(x):
            for cy, vy in base_rate_cases(y):
                E.check(E.Implies(E.And(cx, cy), r.rate == _own_rate(vy / vx)), 'cross-rate-is-quotient-of-base-rates',
                        key='get_rate:cross-rate', info=info)
    m = Money(a, cur[x])
    res = conv(m, cur[y], *args)
    E.check(res == m.amount * r.rate, 'call-multiplies-by-reported-rate', key='call:not-reported-rate', info=info)
    if not cfg['default_date']:
        # an explicit date must be used even when the default clock says otherwise
        other = MoneyConverter(cur['EUR'], get_dflt_effective_date=lambda: datetime.date(1999, 1, 1))
        other._rate_dict = conv._rate_dict
        other._type_of_validity = conv._type_of_validity
        E.check(other(m, cur[y], d) == res, 'explicit-date-overrides-default', key='call:explicit-date-ignored', info=info)
    E.observe('rate', r.rate)
    if cfg.get('canary'):
        E.check(r.rate == Fraction('1.31'), 'canary-always-second-entry')


def empty_converter(E, cfg):
    from quantity import UnitConversionError
    from quantity.money import Money, MoneyConverter
    cur = {c: Money.register_currency(c) for c in CURS}
    d = E.date('d')
    a = E.rational('a', 'dec')
    conv = MoneyConverter(cur['EUR'])
    x, y = E.choice('pair', [(p, q) for p in CURS for q in CURS if p != q])
    E.check(conv.get_rate(cur[x], cur[y], d) is None, 'empty-converter-has-no-rate')
    C.expect_raises(E, lambda: conv(Money(a, cur[x]), cur[y], d), UnitConversionError, 'empty-converter-call-raises')
    E.check(conv.base_currency is cur['EUR'], 'base-currency')


def moving_clock(E, cfg):
    """the default effective date is asked from the configured callable at every look-up"""
    from decimalfp import Decimal
    from quantity.money import Money, MoneyConverter
    cur = {c: Money.register_currency(c) for c in CURS}
    d1, d2 = E.date('d1'), E.date('d2')
    calls = []

    def clock():
        calls.append(1)
        return d1 if len(calls) == 1 else d2
    conv = MoneyConverter(cur['EUR'], get_dflt_effective_date=clock)
    conv._rate_dict = C.ScanDict()
    kind = cfg['kind']
    ref = {}
    for validity, specs in POOLS[kind][:4]:
        conv.update(validity, [(cur[c], Decimal(a), m) for c, a, m in specs])
        for c, a, m in specs:
            ref[(_period_of(validity), c)] = Fraction(a) / m
    a = E.rational('a', 'dec')
    for i, d in enumerate((d1, d2)):
        n0 = len(calls)
        r = conv.get_rate(cur['EUR'], cur['USD'])
        E.check(len(calls) == n0 + 1, 'clock-asked-once-per-look-up', key='clock:calls')
        cases = [(_contains(E, k[0], d), v) for k, v in ref.items() if k[1] == 'USD']
        if r is None:
            E.check(E.Not(E.Or(False, *[c for c, _ in cases])), 'none-only-when-no-entry-for-the-current-default-date',
                    key='clock:none-although-entry', info=[i])
        else:
            for cond, v in cases:
                E.check(E.Implies(cond, r.rate == v), 'default-date-is-the-callables-current-answer',
                        key='clock:stale-default-date', info=[i])
            E.check(E.Or(False, *[c for c, _ in cases]), 'rate-only-when-entry-for-the-current-default-date',
                    key='clock:rate-although-no-entry', info=[i])
    m = Money(a, cur['EUR'])
    n0 = len(calls)
    try:
        res = conv(m, cur['USD'])
    except Exception:
        res = None
    E.check(len(calls) == n0 + 1, 'clock-asked-by-call', key='clock:calls')
