"""C16 -- rejected declarations leave no trace."""
from __future__ import annotations

from fractions import Fraction

from . import common as C
from . import decl as D

PROPERTY = 'C16'
BUDGET = {'quick': 200, 'thorough': 1500}
LAST_CONFIG_INFO = {}

META = {
    'bounds': ['for each of the 21 invalid declaration templates (types, units, derive_unit_from), at every position of a '
               'program of up to 2 (quick) / 3 (thorough) valid steps: the observation of every directory (global symbol '
               'map, per-type unit maps, both term registries with bucket sizes, converter lists, unit-operation cache, '
               'parse results for the rejected symbols) is identical before and after the rejected attempt, the program '
               'continues validly, the rejected symbol can then be declared, and the C15 invariants hold at the end',
               'currencies: invalid minor unit / smallest fraction combinations, unknown ISO codes; MoneyConverter.update: '
               'invalid validity, mixed kind, bad rate specification at each position of a 3-entry update'],
    'outside_bounds': ['programs with more than 3 valid steps', 'two invalid steps in one program (each rejected attempt is '
                       'compared with the state immediately before it, which makes their effects independent)'],
    'stubs': ['Decimal(x, precision) rounding contract', 'marker tokens for text produced from symbolic amounts'],
    'assumptions': ['"as if the attempt had never been made" is checked as: observation after the rejection == observation '
                    'before it, and every later valid step and query behaves per C15'],
}
META['bounds'].append('converter updates: optionally a rate named by the code of an unregistered ISO currency first; unit directories compared before / after')
META['bounds'].append('3 declarations the library may accept or reject (quantum zero / negative): accepted, or rejected without a trace')

POOL_SYMS = ['awdup', 'dw', 'abdup', 'dup2', 'ax', 'ay', 'az', 'a1x', 'aw', 'dx', 'dy', 'dz', 'dv', 'QQY', 'sqa2']


def setup(mode):
    C.import_catalogue()
    import quantity.money  # noqa: F401


def jobs(tier, seed):
    out = []
    for i in range(len(D.INVALID)):
        out.append({'fn': 'program_with_rejection', 'cfg': {'invalid': i, 'valid_steps': 2 if tier == 'quick' else 3}})
    out.append({'fn': 'currencies', 'cfg': {}})
    out.append({'fn': 'converter_updates', 'cfg': {}})
    canary_idx = [i for i, v in enumerate(D.INVALID) if v[0] == 'unit-dup-symbol'][0]
    out.append({'fn': 'program_with_rejection', 'cfg': {'invalid': canary_idx, 'valid_steps': 0, 'canary': True}, 'canary': True})
    LAST_CONFIG_INFO.clear()
    LAST_CONFIG_INFO.update({'invalid_templates': len(D.INVALID), 'exhaustive': True})
    return out


def _attempt(E, L, idx, a):
    """run invalid step idx; obligations: raises, no trace, symbols stay unknown"""
    from quantity import Quantity, Unit
    name, req, exc, fn, syms = D.INVALID[idx]
    before = D.observe_directories(POOL_SYMS)
    exc_cls = {'ValueError': ValueError, 'TypeError': TypeError, 'AssertionError': AssertionError,
               'Optional': Exception}[exc]
    try:
        fn(L)
    except exc_cls:
        E.ok('invalid-declaration-raises')
    except Exception as e:
        E.fail('invalid-declaration-raises', key='reject:%s:wrong-exception:%s' % (name, type(e).__name__))
    else:
        if exc == 'Optional':
            E.ok('declaration-accepted')
            return 'accepted'
        E.fail('invalid-declaration-raises', key='reject:%s:accepted' % name)
        return
    after = D.observe_directories(POOL_SYMS)
    labels = ['symbol-map', 'per-type-unit-maps', 'registries', 'parse-results', 'unit-op-cache']
    for lab, b, x in zip(labels, before, after):
        E.check(b == x, 'no-trace-in-' + lab, key='trace:%s:%s' % (name, lab),
                info=[str(set(x) ^ set(b))[:300]] if isinstance(x, tuple) and lab != 'registries' else [str(b), str(x)])
    for s in syms:
        try:
            Unit(s)
        except ValueError:
            E.ok('rejected-symbol-stays-unknown')
        else:
            E.fail('rejected-symbol-stays-unknown', key='trace:%s:symbol-registered' % name, info=s)
        if s:
            try:
                q = Quantity('%s %s' % (a, s))
            except Exception:
                E.ok('parsing-rejected-symbol-fails')
            else:
                E.fail('parsing-rejected-symbol-fails', key='trace:%s:parse-produces-instance' % name,
                       info=[s, type(q).__name__])


def program_with_rejection(E, cfg):
    from fractions import Fraction
    L = D.Ledger()
    a = E.rational('a', 'dec')
    idx = cfg['invalid']
    name, req, exc, fn, syms = D.INVALID[idx]
    D.ensure(L, set(req))
    n = cfg['valid_steps']
    pos = E.choice('position', list(range(n + 1)))
    done = 0
    for k in range(n + 1):
        if k == pos:
            if _attempt(E, L, idx, a) == 'accepted':
                return
        if k == n:
            break
        av = [i for i, (nm, rq, f) in enumerate(D.VALID)
              if D.produced_names(nm) not in L.classes and D.produced_names(nm) not in L.units and D.requires_met(L, rq)]
        if not av:
            break
        nxt = E.choice('step%d' % k, av[:: max(1, len(av) // 5)])     # a spread of the available steps
        nm, rq, f = D.VALID[nxt]
        try:
            f(L)
        except Exception as e:
            E.fail('valid-step-after-rejection-accepted', key='after-reject:%s:valid-rejected:%s:%s' % (name, nm, type(e).__name__))
            return
        L.log.append(nm)
    # the rejected symbols are still available for a valid declaration
    for s in syms:
        if not s:
            continue
        cls = L.classes.get('DA')
        if cls is None:
            continue
        try:
            u = cls.new_unit(s, None, C.num('2.5') * L.units['a0'][0])
        except Exception as e:
            E.fail('rejected-symbol-available-afterwards', key='after-reject:%s:symbol-taken:%s' % (name, type(e).__name__),
                   info=s)
        else:
            L.units[s] = (u, 'DA', Fraction(5, 2))
    D.check_directory(E, L, a, 'after-rejection')
    if cfg.get('canary'):
        from quantity import Unit
        E.check(Unit('a0') is None, 'canary-a0-unknown')


def currencies(E, cfg):
    from decimalfp import Decimal
    from quantity import Quantity, Unit
    from quantity.money import Money
    a = E.rational('a', 'dec')
    cases = [('minor-negative', dict(minor_unit=-1)), ('minor-float', dict(minor_unit=1.5)),
             ('fraction-zero', dict(smallest_fraction=0)), ('fraction-negative', dict(smallest_fraction='-0.01')),
             ('fraction-not-dividing-one', dict(smallest_fraction='0.3')), ('fraction-one', dict(smallest_fraction=1)),
             ('fraction-text', dict(smallest_fraction='x')), ('minor-fraction-mismatch', dict(minor_unit=3, smallest_fraction='0.05')),
             ('minor0-fraction-mismatch', dict(minor_unit=0, smallest_fraction=Decimal('0.5'))),
             ('minor-huge', dict(minor_unit=70000)), ('iso-unknown', None), ('iso-lowercase', None), ('empty-symbol', dict(minor_unit=2)),
             ('nonstring-symbol', dict(minor_unit=2)), ('money-subclass', dict(minor_unit=2))]
    label, kw = E.choice('case', cases)
    Money.register_currency('EUR')
    before = D.observe_directories(['QQY', 'ZZZ', 'eur'])
    n_units = len(Money.units())
    if label == 'iso-unknown':
        fn = lambda: Money.register_currency('ZZZ')
        sym = 'ZZZ'
    elif label == 'iso-lowercase':
        fn = lambda: Money.register_currency('eur')
        sym = 'eur'
    elif label == 'empty-symbol':
        fn = lambda: Money.new_unit('', 'nothing', **kw)
        sym = ''
    elif label == 'nonstring-symbol':
        fn = lambda: Money.new_unit(5, 'five', **kw)
        sym = None
    elif label == 'money-subclass':
        # a currency declared on a subclass of Money: accepted or rejected, but not rejected half-way
        Sub = type(Money)('SubMoney', (Money,), {})
        before = D.observe_directories(['QQY', 'ZZZ', 'eur'])
        fn = lambda: Sub.new_unit('QQY', 'Sub currency', **kw)
        sym = 'QQY'
    else:
        fn = lambda: Money.new_unit('QQY', 'Bad currency', **kw)
        sym = 'QQY'
    try:
        fn()
    except (ValueError, TypeError, AssertionError):
        E.ok('invalid-currency-rejected')
    except Exception as e:
        E.fail('invalid-currency-rejected', key='currency:%s:wrong-exception:%s' % (label, type(e).__name__))
    else:
        if label == 'money-subclass':
            E.ok('invalid-currency-rejected')
            return
        E.fail('invalid-currency-rejected', key='currency:%s:accepted' % label)
        return
    after = D.observe_directories(['QQY', 'ZZZ', 'eur'])
    E.check(before == after, 'rejected-currency-leaves-no-trace', key='currency:%s:trace' % label)
    E.check(len(Money.units()) == n_units, 'rejected-currency-not-listed', key='currency:%s:listed' % label)
    if sym:
        try:
            Unit(sym)
        except ValueError:
            E.ok('rejected-currency-symbol-unknown')
        else:
            E.fail('rejected-currency-symbol-unknown', key='currency:%s:symbol-registered' % label)
        try:
            q = Quantity('%s %s' % (a, sym))
        except Exception:
            E.ok('rejected-currency-not-parsable')
        else:
            E.fail('rejected-currency-not-parsable', key='currency:%s:parse-produces-instance' % label)
        if sym == 'QQY':
            try:
                cur = Money.new_unit('QQY', 'Good currency', minor_unit=1)
            except ValueError:
                E.fail('symbol-available-afterwards', key='currency:%s:symbol-taken' % label)
            else:
                E.check(Unit('QQY') is cur and cur.smallest_fraction == Fraction(1, 10), 'symbol-available-afterwards',
                        key='currency:%s:symbol-taken' % label)


def _conv_obs(conv):
    return (sorted((repr(k[0]), getattr(k[1], 'symbol', repr(k[1])), str(v.rate)) for k, v in conv._rate_dict.items()),
            conv._type_of_validity)


def converter_updates(E, cfg):
    import datetime
    from decimalfp import Decimal
    from quantity.money import Money, MoneyConverter
    eur, usd, hkd, jpy = (Money.register_currency(c) for c in ('EUR', 'USD', 'HKD', 'JPY'))
    a = E.rational('a', 'dec')
    good = [(usd, Decimal('1.1'), 1), (hkd, Decimal('8.5'), 1), (jpy, Decimal('16300'), 100)]
    bads = {'identical-currency': (eur, Decimal('1.0'), 1), 'zero-amount': (usd, Decimal(0), 1),
            'bad-multiple': (usd, Decimal('1.2'), Decimal('1.5')), 'unknown-code': ('QQQ', '1.3', 1),
            'text-amount': (usd, 'abc', 1), 'too-small': (usd, Decimal('0.0000001'), 1)}
    state = E.choice('state', ['fresh', 'after-yearly-update'])
    conv = MoneyConverter(eur)
    if state == 'after-yearly-update':
        conv.update(2023, [(usd, Decimal('1.05'), 1)])
    case = E.choice('case', ['bad-spec', 'invalid-validity', 'mixed-kind'])
    before = _conv_obs(conv)
    if case == 'bad-spec':
        bad_name = E.choice('bad', sorted(bads))
        pos = E.choice('pos', [0, 1, 2, 3])
        specs = list(good)
        specs.insert(pos, bads[bad_name])
        # a currency named by its code that has not been registered yet must not become registered by the attempt
        with_code = E.choice('unregistered-code-first', [False, True])
        if with_code:
            specs.insert(0, ('CHF', '0.95', 1))
        dirs_before = D.observe_directories(['CHF', 'QQQ'])
        try:
            conv.update(2024, specs)
        except (ValueError, TypeError):
            E.ok('update-with-bad-rate-spec-rejected')
        except Exception as e:
            E.fail('update-with-bad-rate-spec-rejected', key='update:bad-spec:%s:wrong-exception:%s' % (bad_name, type(e).__name__))
        else:
            E.fail('update-with-bad-rate-spec-rejected', key='update:bad-spec:%s:accepted' % bad_name)
            return
        E.check(D.observe_directories(['CHF', 'QQQ']) == dirs_before, 'rejected-update-leaves-directories-unchanged',
                key='update:bad-spec:directories', info=[bad_name, pos, with_code])
        after = _conv_obs(conv)
        E.check(after[0] == before[0], 'rejected-update-leaves-rate-table-unchanged',
                key='update:bad-spec:partial-update%s' % ('' if pos else ':bad-entry-first'), info=[bad_name, pos])
        E.check(after[1] == before[1], 'rejected-update-leaves-validity-kind-unchanged',
                key='update:bad-spec:kind-set', info=[bad_name, pos, state])
        E.check(conv.get_rate(eur, hkd, datetime.date(2024, 5, 5)) is None, 'no-rate-from-rejected-update',
                key='update:bad-spec:rate-visible', info=[bad_name, pos])
        # a later valid update of another kind must still be possible on a fresh converter
        if state == 'fresh':
            try:
                conv.update((2024, 5), [(usd, Decimal('1.4'), 1)])
            except ValueError:
                E.fail('kind-still-free-after-rejected-first-update', key='update:bad-spec:kind-blocked', info=[bad_name, pos])
            else:
                E.check(conv.get_rate(eur, usd, datetime.date(2024, 5, 5)).rate == Fraction('1.4'), 'later-update-works')
    elif case == 'invalid-validity':
        v = E.choice('validity', [(2024, 13), '2024-02-30', 10000, 'abc', 3.5, '2024-1-1-1', (2024, 0)])
        try:
            conv.update(v, good)
        except ValueError:
            E.ok('invalid-validity-rejected')
        except Exception as e:
            E.fail('invalid-validity-rejected', key='update:invalid-validity:wrong-exception:%s' % type(e).__name__, info=repr(v))
        else:
            E.fail('invalid-validity-rejected', key='update:invalid-validity:accepted', info=repr(v))
            return
        E.check(_conv_obs(conv) == before, 'rejected-update-leaves-converter-unchanged',
                key='update:invalid-validity:trace', info=repr(v))
    else:
        if state == 'fresh':
            conv.update(None, [(usd, Decimal('1.01'), 1)])
            before = _conv_obs(conv)
        v = E.choice('validity', [(2024, 5), datetime.date(2024, 5, 5), '2024-05'] + ([2024] if state == 'fresh' else [None]))
        try:
            conv.update(v, good)
        except ValueError:
            E.ok('mixed-kind-rejected')
        else:
            E.fail('mixed-kind-rejected', key='update:mixed-kind:accepted', info=repr(v))
            return
        E.check(_conv_obs(conv) == before, 'rejected-update-leaves-converter-unchanged', key='update:mixed-kind:trace',
                info=repr(v))
        m = Money(a, eur)
        d = datetime.date(2023, 6, 6)
        E.check(conv(m, usd, d) == m.amount * (Fraction('1.05') if state == 'after-yearly-update' else Fraction('1.01')),
                'rates-still-reachable-after-rejected-update', key='update:mixed-kind:rates-lost')
