"""Shared scenario helpers: catalogue access and the independent oracles (DESIGN 5).

Nothing here calls Term.normalized, Unit._equiv, Unit._get_factor or the library's
convert: the oracles walk `unit.definition` / class definitions with their own code.
"""
from __future__ import annotations

import random
from fractions import Fraction
from numbers import Rational


def import_catalogue():
    import quantity
    import quantity.predefined as pre
    return quantity, pre


def all_classes():
    """the 14 predefined quantity classes, in declaration order"""
    import quantity.predefined as pre
    from quantity import QuantityMeta
    seen = []
    for name, obj in vars(pre).items():
        if isinstance(obj, QuantityMeta) and obj.__module__ == pre.__name__ and obj not in seen:
            seen.append(obj)
    return seen


def linear_classes():
    return [c for c in all_classes() if c.ref_unit is not None]


def units_of(cls):
    return list(cls.units())


def unit(symbol):
    from quantity import Unit
    return Unit(symbol)


def scale(u):
    """Scale oracle: product of the numeric factors along the chain of definitions
    down to base / reference units (own walk of `unit.definition`)."""
    d = u._definition
    if d is None:
        return Fraction(1)
    s = Fraction(1)
    for elem, exp in d.items:
        if isinstance(elem, Rational):
            f = _exact(elem)
        else:
            f = scale(elem)
        s = s * _pow(f, exp)
    return s


def _exact(x):
    if type(x).__name__ in ('SymDec', 'SymFrac', 'SymInt'):
        return x
    return Fraction(x)


def _pow(f, exp):
    if exp >= 0:
        return f ** exp
    return 1 / (f ** (-exp))


def dim_vector(cls):
    """Dimension oracle: exponent vector over base classes by own recursive expansion"""
    d = cls._definition
    if d is None or len(d) == 0:
        return {cls: 1}
    vec = {}
    for elem, exp in d.items:
        for k, e in dim_vector(elem).items():
            vec[k] = vec.get(k, 0) + e * exp
    return {k: e for k, e in vec.items() if e != 0}


def unit_dim_vector(u):
    return dim_vector(u.qty_cls)


def chunks(lst, n):
    """split lst into at most n nearly equal chunks (non-empty)"""
    n = max(1, min(n, len(lst)))
    k, m = divmod(len(lst), n)
    out = []
    i = 0
    for j in range(n):
        sz = k + (1 if j < m else 0)
        out.append(lst[i:i + sz])
        i += sz
    return [c for c in out if c]


def sample(rng, lst, k):
    if k >= len(lst):
        return list(lst)
    return rng.sample(lst, k)


def rng_for(seed, salt):
    return random.Random("%s-%s" % (seed, salt))
