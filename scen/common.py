"""Shared scenario helpers: catalogue access and the independent oracles (DESIGN 5).

Nothing here calls Term.normalized, Unit._equiv, Unit._get_factor or the library's
convert: the oracles walk `unit.definition` / class definitions with their own code.
"""
from __future__ import annotations

import random
from fractions import Fraction
from numbers import Rational


def import_catalogue():
    import quantity
    import quantity.predefined as pre
    return quantity, pre


def all_classes():
    """the 14 predefined quantity classes, in declaration order"""
    import quantity.predefined as pre
    from quantity import QuantityMeta
    seen = []
    for name, obj in vars(pre).items():
        if isinstance(obj, QuantityMeta) and obj.__module__ == pre.__name__ and obj not in seen:
            seen.append(obj)
    return seen


def linear_classes():
    return [c for c in all_classes() if c.ref_unit is not None]


def units_of(cls):
    return list(cls.units())


def unit(symbol):
    from quantity import Unit
    return Unit(symbol)


def scale(u):
    """Scale oracle: product of the numeric factors along the chain of definitions
    down to base / reference units (own walk of `unit.definition`)."""
    d = u._definition
    if d is None:
        return Fraction(1)
    s = Fraction(1)
    for elem, exp in d.items:
        if isinstance(elem, Rational):
            f = _exact(elem)
        else:
            f = scale(elem)
        s = s * _pow(f, exp)
    return s


def _exact(x):
    if type(x).__name__ in ('SymDec', 'SymFrac', 'SymInt'):
        return x
    return Fraction(x)


def _pow(f, exp):
    if exp >= 0:
        return f ** exp
    return 1 / (f ** (-exp))


def dim_vector(cls):
    """Dimension oracle: exponent vector over base classes by own recursive expansion"""
    d = cls._definition
    if d is None or len(d) == 0:
        return {cls: 1}
    vec = {}
    for elem, exp in d.items:
        for k, e in dim_vector(elem).items():
            vec[k] = vec.get(k, 0) + e * exp
    return {k: e for k, e in vec.items() if e != 0}


def unit_dim_vector(u):
    return dim_vector(u.qty_cls)


def chunks(lst, n):
    """split lst into at most n nearly equal chunks (non-empty)"""
    n = max(1, min(n, len(lst)))
    k, m = divmod(len(lst), n)
    out = []
    i = 0
    for j in range(n):
        sz = k + (1 if j < m else 0)
        out.append(lst[i:i + sz])
        i += sz
    return [c for c in out if c]


def sample(rng, lst, k):
    if k >= len(lst):
        return list(lst)
    return rng.sample(lst, k)


def rng_for(seed, salt):
    return random.Random("%s-%s" % (seed, salt))


# ---- ISO 4217: own parse of the bundled table (regex over the raw text) ----
_ISO = None


def iso_table():
    """code -> (name, minor_units) for entries with numeric minor units; first name wins"""
    global _ISO
    if _ISO is None:
        import os
        import re
        import quantity.money as qm
        path = os.path.join(os.path.dirname(qm.__file__), 'iso_4217.xml')
        txt = open(path, encoding='utf-8').read()
        out = {}
        for ent in re.findall(r'<CcyNtry>(.*?)</CcyNtry>', txt, re.S):
            def g(tag):
                m = re.search(r'<%s(?:\s[^>]*)?>(.*?)</%s>' % (tag, tag), ent, re.S)
                return m.group(1) if m else None
            code, name, minor, num = g('Ccy'), g('CcyNm'), g('CcyMnrUnts'), g('CcyNbr')
            if code and minor is not None and minor.isdigit() and num and num.isdigit():
                name = name.replace('&amp;', '&').replace('&apos;', "'").replace('&quot;', '"')
                out.setdefault(code, (name, int(minor)))
        _ISO = out
    return _ISO


def expect_raises(E, fn, exc_cls, label, info=None, not_cls=None):
    """obligation: fn() raises exc_cls (and not the more specific not_cls)"""
    try:
        r = fn()
    except exc_cls as e:
        if not_cls is not None and isinstance(e, not_cls):
            E.fail(label, key='%s:wrong-exception:%s' % (label, type(e).__name__), info=info)
        else:
            E.ok(label)
    except Exception as e:
        E.fail(label, key='%s:wrong-exception:%s' % (label, type(e).__name__), info=info)
    else:
        E.fail(label, key='%s:returned-value' % label, info=(info or []) + [repr(r)[:80]])


def mode(name):
    from decimalfp import ROUNDING
    return getattr(ROUNDING, name)


def set_default_mode(name):
    import decimalfp
    decimalfp.set_dflt_rounding_mode(mode(name))


MODES = ['ROUND_05UP', 'ROUND_CEILING', 'ROUND_DOWN', 'ROUND_FLOOR', 'ROUND_HALF_DOWN',
         'ROUND_HALF_EVEN', 'ROUND_HALF_UP', 'ROUND_UP']


def mk_cls(name, **kw):
    from quantity import Quantity, QuantityMeta
    return QuantityMeta(name, (Quantity,), {}, **kw)


def user_linear_type(name='ULen', ref='u0'):
    """a user type whose units are declared in every accepted form, with their scales known to the harness:
    -> (cls, {symbol: (unit, Fraction scale)})"""
    from decimalfp import Decimal
    from quantity.term import Term
    T = mk_cls(name, ref_unit_symbol=ref)
    r = T.ref_unit
    units = {ref: (r, Fraction(1))}
    units['ui3'] = (T.new_unit('ui3', None, Term([(3, 1), (r, 1)])), Fraction(3))            # plain int in a term
    units['ui7'] = (T.new_unit('ui7', None, Term([(7, 1), (r, 1)])), Fraction(7))
    units['um3'] = (T.new_unit('um3', None, 3 * r), Fraction(3))                               # int * unit
    units['ud'] = (T.new_unit('ud', None, Decimal('0.25') * r), Fraction(1, 4))
    units['uf'] = (T.new_unit('uf', None, Term([(Fraction(2, 7), 1), (r, 1)])), Fraction(2, 7))
    units['uc'] = (T.new_unit('uc', None, 12 * units['ui7'][0]), Fraction(84))                 # chained on a term-defined unit
    return T, units


def num(s):
    """'1/3' / '0.25' / '5' -> Decimal when exactly representable else Fraction"""
    from decimalfp import Decimal
    f = Fraction(s)
    try:
        return Decimal(f)
    except ValueError:
        return f


class ScanDict(dict):
    """dict whose look-up scans the entries and compares keys component-wise with `==` (so that
    keys holding symbolic integers / dates split the path instead of being hashed), DESIGN 3.3.
    Storage is an ordinary dict keyed by the concrete keys the library writes."""

    @staticmethod
    def _eq(a, b):
        if isinstance(a, tuple) and isinstance(b, tuple):
            if len(a) != len(b):
                return False
            for x, y in zip(a, b):
                if not ScanDict._eq(x, y):
                    return False
            return True
        if isinstance(a, tuple) != isinstance(b, tuple):
            return False
        if a is None or b is None:
            return a is b
        import datetime
        # the library distinguishes validity kinds by type: an int never equals a date
        da, db = isinstance(a, datetime.date) or type(a).__name__ == 'SymDate', \
            isinstance(b, datetime.date) or type(b).__name__ == 'SymDate'
        if da != db:
            return False
        r = (a == b)
        if r is NotImplemented:
            r = (b == a)
        return bool(r)

    def __getitem__(self, key):
        for k in list(dict.keys(self)):
            if ScanDict._eq(k, key):
                return dict.__getitem__(self, k)
        raise KeyError(key)

    def __contains__(self, key):
        try:
            self[key]
        except KeyError:
            return False
        return True

    def get(self, key, default=None):
        try:
            return self[key]
        except KeyError:
            return default
