#!/usr/bin/env python3
"""Development tool (not registered in MANIFEST): run the quick check of a property against
each stored seeded mutation on a scratch worktree of /repo (never /repo itself) and record
which checks catch which change in seeded/RESULTS.json.

usage: tools/run_seeded.py [--tier quick] [--only C05-m1,...] [--props C05,C13] [--jobs 3] [--as C06]
Every seed is run against the check of the property it breaks, or (--as) against the check of another property
(recorded as <seed>@<that property>)."""
import json, os, subprocess, sys, tempfile, time, shutil
from concurrent.futures import ThreadPoolExecutor
ROOT = os.path.dirname(os.path.dirname(os.path.abspath(__file__)))

def sh(cmd, **kw):
    return subprocess.run(cmd, shell=True, capture_output=True, text=True, **kw)

def run_one(seed, prop, tier):
    sd = os.path.join(ROOT, 'seeded', seed)
    wt = tempfile.mkdtemp(prefix='seedwt-')
    os.rmdir(wt)
    r = sh('git -C /repo worktree add -q --detach %s HEAD' % wt)
    if r.returncode:
        return {'seed': seed, 'prop': prop, 'error': r.stderr[-300:]}
    try:
        shutil.copy('/repo/src/quantity/version.py', wt + '/src/quantity/version.py')
        r = sh('git -C %s apply %s/patch.diff' % (wt, sd))
        if r.returncode:
            return {'seed': seed, 'prop': prop, 'error': 'apply: ' + r.stderr[-300:]}
        ev = tempfile.mkdtemp(prefix='seedev-')
        env = dict(os.environ, QUANTITY_SRC=wt + '/src', SYMX_EVIDENCE_DIR=ev, SYMX_REPLAY_DIR=ev,
                   VERIF_NPROC=os.environ.get('SEED_NPROC', '6'))
        t0 = time.time()
        try:
            r = subprocess.run([ROOT + '/bin/check', prop, '--tier', tier], capture_output=True, text=True, env=env,
                               cwd=ROOT, timeout=1500, start_new_session=True)
        except subprocess.TimeoutExpired as te:
            return {'seed': seed, 'prop': prop, 'rc': 'timeout', 'wall': 1500, 'violations': [], 'tail': ['timeout']}
        out = r.stdout
        viol = [l for l in out.splitlines() if l.startswith('VIOLATION')]
        res = {'seed': seed, 'prop': prop, 'rc': r.returncode, 'wall': round(time.time() - t0, 1),
               'violations': [l.split('key=')[-1] for l in viol][:8],
               'tail': out.strip().splitlines()[-3:] if r.returncode not in (0, 1) else []}
        shutil.rmtree(ev, ignore_errors=True)
        return res
    finally:
        sh('git -C /repo worktree remove --force %s' % wt)

def main():
    a = sys.argv[1:]
    tier = a[a.index('--tier') + 1] if '--tier' in a else 'quick'
    only = a[a.index('--only') + 1].split(',') if '--only' in a else None
    props = a[a.index('--props') + 1].split(',') if '--props' in a else None
    jobs = int(a[a.index('--jobs') + 1]) if '--jobs' in a else 3
    as_prop = a[a.index('--as') + 1] if '--as' in a else None
    claimed = {c['property_id'] for c in json.load(open(ROOT + '/MANIFEST.json'))['checks']}
    seeds = sorted(d for d in os.listdir(ROOT + '/seeded') if os.path.isdir(ROOT + '/seeded/' + d) and not d.startswith('_'))
    work = []
    for s in seeds:
        if only and s not in only:
            continue
        p = s.split('-')[0]
        if props and p not in props:
            continue
        if as_prop:
            work.append((s, as_prop))
        elif p in claimed:
            work.append((s, p))
    resf = ROOT + '/seeded/RESULTS.json'
    results = json.load(open(resf)) if os.path.exists(resf) else {}
    with ThreadPoolExecutor(jobs) as ex:
        for res in ex.map(lambda w: run_one(w[0], w[1], tier), work):
            key = '%s@%s' % (res['seed'], res['prop'])
            res['tier'] = tier
            res['detected'] = res.get('rc') == 1
            results[key] = res
            print(key, 'rc=%s' % res.get('rc'), 'wall=%s' % res.get('wall'), res.get('violations') or res.get('error') or res.get('tail'), flush=True)
            json.dump(results, open(resf, 'w'), indent=1, sort_keys=True)

main()
