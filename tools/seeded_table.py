#!/usr/bin/env python3
"""Regenerate the seeded-changes table in DESIGN.md from seeded/RESULTS.json and seeded/*/notes.md."""
import json, os, re
ROOT = os.path.dirname(os.path.dirname(os.path.abspath(__file__)))
res = json.load(open(ROOT + '/seeded/RESULTS.json'))
rows = []
for d in sorted(os.listdir(ROOT + '/seeded')):
    p = ROOT + '/seeded/' + d
    if not os.path.isdir(p) or d.startswith('_'):
        continue
    prop = d.split('-')[0]
    r = res.get('%s@%s' % (d, prop))
    desc = ''
    try:
        txt = open(p + '/patch.diff').read()
        files = sorted(set(re.findall(r'^\+\+\+ b/src/quantity/(\S+)', txt, re.M)))
        desc = ', '.join(files)
    except OSError:
        pass
    if r is None:
        verdict, keys = 'not run', ''
    elif r.get('rc') == 1:
        verdict, keys = 'caught (VIOLATION)', ', '.join(r.get('violations', [])[:3])
    elif r.get('rc') == 0:
        verdict, keys = 'MISSED', ''
    else:
        verdict, keys = 'inconclusive (exit %s)' % r.get('rc'), ''
    others = sorted(k.split('@')[1] for k, v in res.items() if k.startswith(d + '@') and k != '%s@%s' % (d, prop)
                    and v.get('rc') == 1)
    if others:
        verdict += '; caught by the check of ' + ', '.join(others)
    rows.append('| %s | %s | %s | %s | %s |' % (d, desc, verdict, r.get('tier', '') if r else '', keys[:110]))
n_c = sum('| caught' in x for x in rows)
n_o = sum('| caught' not in x and 'caught by the check of' in x for x in rows)
table = ['| seed | file(s) changed | result of its property\'s check | tier | first violating keys |', '|---|---|---|---|---|'] + rows
table.append('')
table.append('%d of %d caught with a reproduced VIOLATION by the check of the property they were written for; %d more by the '
             'check of the property they actually break.' % (n_c, len(rows), n_o))
s = open(ROOT + '/DESIGN.md').read()
block = '<!-- seeded-table-begin -->\n' + '\n'.join(table) + '\n<!-- seeded-table-end -->'
if '@@SEEDED_TABLE@@' in s:
    s = s.replace('@@SEEDED_TABLE@@', block)
else:
    s = re.sub(r'<!-- seeded-table-begin -->.*?<!-- seeded-table-end -->', lambda m: block, s, flags=re.S)
open(ROOT + '/DESIGN.md', 'w').write(s)
print('%d rows, %d caught' % (len(rows), n_c))
