#!/usr/bin/env python3
"""Regenerate /verif/MANIFEST.json from the table below (keeps it schema-valid)."""
import json, os, sys
ROOT = os.path.dirname(os.path.dirname(os.path.abspath(__file__)))
BASELINE = json.load(open('/root/.vp/BASELINE.json'))

TECH = ("symbolic execution of the real /repo/src/quantity code with z3-backed proxy numbers "
        "(fork-per-branch path splitting); every obligation decided by z3 (unsat = holds for all "
        "values on that path), counterexamples replayed on the unmodified C build")

CLAIMED = {
    # id: (design_ref, level text, note)
}

def load_claims():
    p = os.path.join(ROOT, 'tools', 'claims.json')
    return json.load(open(p))

def main():
    claims = load_claims()
    props = [json.loads(l) for l in open(os.path.join(ROOT, 'properties.jsonl'))]
    checks, na = [], []
    for p in props:
        pid = p['id']
        c = claims.get(pid)
        if c and c.get('claimed'):
            checks.append({
                'property_id': pid,
                'quick_cmd': 'bin/check %s --tier quick' % pid,
                'thorough_cmd': 'bin/check %s --tier thorough' % pid,
                'evidence_file': 'evidence/%s.json' % pid,
                'replay_cmd_template': 'bin/replay {path}',
                'engine': 'symx',
                'level_claimed': {'category': 'model_checking', 'text': c['text'],
                                  'design_ref': c.get('design_ref', 'DESIGN.md section 7, ' + pid)},
                'level_note': c['note'],
                'technique': c.get('technique', TECH),
            })
        else:
            na.append({'property_id': pid, 'reason': (c or {}).get('reason', 'check not built yet in this round (see DESIGN.md section 7 for the plan)')})
    man = {
        'version': 1,
        'setup_cmd': 'bin/ensure_env',
        'hooks': {'guard': 'QUANTITY_VERIF',
                  'enable': 'not used: no source hooks; proxies and stubs are applied from the harness process',
                  'baseline_off_cmd': BASELINE['cmd'].replace(' --junitxml=<file>', ''),
                  'source_commits': [], 'add_only': True},
        'engines': [{'name': 'symx', 'path': 'symx/', 'serves_properties': [c['property_id'] for c in checks],
                     'kind_free_text': 'bounded symbolic execution of the real Python code by z3-backed proxy values; solver verdict per obligation per path'}],
        'checks': checks,
        'not_applicable': na,
        'notes': 'Exit codes of bin/check: 0 held, 1 reproduced violation (VIOLATION line), 2 inconclusive / harness error (never success). See DESIGN.md.',
    }
    json.dump(man, open(os.path.join(ROOT, 'MANIFEST.json'), 'w'), indent=1)
    try:
        import jsonschema
        jsonschema.validate(man, json.load(open('/root/.vp/MANIFEST.schema.json')))
        print('MANIFEST valid;', len(checks), 'claimed,', len(na), 'not claimed')
    except ImportError:
        print('jsonschema not available; not validated')

main()
