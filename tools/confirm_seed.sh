#!/bin/sh
# usage: tools/confirm_seed.sh <Cxx> <mN>   -- confirm a sub-agent mutation in its scratch worktree
# (tests pass with it, demo fails with it and passes without) and store it under seeded/
set -u
ID="$1"; M="$2"; OUT="${3:-out}"; PFX="${4:-}"
WT="/tmp/wt/$ID"; SRC="$WT/$OUT/$M"
DEST="/verif/seeded/$ID-$PFX$M"
cd "$WT" || exit 2
git checkout -q -- src || exit 2
git apply --check "$SRC/patch.diff" || { echo "patch does not apply"; exit 1; }
PYTHONPATH="$WT/src" /venv/bin/python "$SRC/demo.py" >/dev/null 2>&1; RC0=$?
git apply "$SRC/patch.diff"
PYTHONPATH="$WT/src" /venv/bin/python "$SRC/demo.py" >/dev/null 2>&1; RC1=$?
TESTS=$(PYTHONPATH="$WT/src" /venv/bin/python -m pytest -q -p no:cacheprovider tests 2>&1 | tail -1)
git checkout -q -- src
echo "$ID-$M demo_without=$RC0 demo_with=$RC1 tests: $TESTS"
case "$TESTS" in *"2998 passed"*) ;; *) echo "REJECT: tests"; exit 1;; esac
[ "$RC0" = 0 ] || { echo "REJECT: demo fails on original"; exit 1; }
[ "$RC1" != 0 ] || { echo "REJECT: demo passes with mutation"; exit 1; }
mkdir -p "$DEST"
cp "$SRC/patch.diff" "$SRC/demo.py" "$DEST/"
[ -f "$SRC/notes.md" ] && cp "$SRC/notes.md" "$DEST/"
python3 - "$ID" "$M" "$DEST" "$TESTS" "$RC0" "$RC1" <<'PY'
import json, sys, re
pid, m, dest, tests, rc0, rc1 = sys.argv[1:7]
notes = ''
try: notes = open(dest + '/notes.md').read()
except OSError: pass
meta = {'property': pid, 'id': dest.rstrip('/').split('/')[-1], 'source': 'independent sub-agent given only the property text and a scratch worktree',
        'needs_to_manifest': notes[:1500],
        'confirmed': {'tests_with_patch': tests.strip(), 'demo_exit_without_patch': int(rc0), 'demo_exit_with_patch': int(rc1),
                      'how': 'tools/confirm_seed.sh: git apply in scratch worktree, full pytest, demo with and without'}}
json.dump(meta, open(dest + '/meta.json', 'w'), indent=1)
PY
echo "KEPT $DEST"
