"""Concrete twin of the engine: runs a scenario on real numbers (no z3, no proxies).

Used for witness validation (translator validation of the proxies / stubs) and for
replaying counterexamples on the unmodified default build (C decimalfp).
"""
from __future__ import annotations

import sys as _sys
try:
    _sys.set_int_max_str_digits(0)
except AttributeError:
    pass

from fractions import Fraction

from decimalfp import Decimal


class PathAbort(BaseException):
    pass


class Unrepresentable(BaseException):
    """The witness cannot be expressed in the requested input kind."""


def dec_num(s):
    if isinstance(s, bool):
        return s
    if isinstance(s, int):
        return s
    return Fraction(s)


def enc_num(v):
    if isinstance(v, bool):
        return v
    if isinstance(v, int):
        return str(v)
    f = Fraction(v)
    if f.denominator == 1:
        return str(f.numerator)
    return "%d/%d" % (f.numerator, f.denominator)


class ConcreteEngine:
    mode = 'conc'

    def __init__(self, model, choices, opts=None):
        self.model = model or {}
        self.choices = choices or {}
        self.opts = opts or {}
        self.obls = []
        self.obs = []
        self.notes = []
        self.cfg = None

    # inputs
    def rational(self, name, flav='dec'):
        if name not in self.model:
            # input created after the point the model was taken: any value will do
            v = Fraction(1)
        elif self.model[name] is None:
            raise Unrepresentable(name)
        else:
            v = Fraction(self.model[name])
        if flav == 'frac':
            return v
        if flav == 'int':
            if v.denominator != 1:
                raise Unrepresentable(name)
            return int(v)
        try:
            return Decimal(v)
        except ValueError:
            raise Unrepresentable(name) from None

    def rational_over(self, name, den, flav='frac'):
        n = int(Fraction(self.model.get(name, 1)))
        v = Fraction(n, den)
        if flav == 'frac':
            return v
        try:
            return Decimal(v)
        except ValueError:
            raise Unrepresentable(name) from None

    def integer(self, name, lo=None, hi=None):
        if name not in self.model:
            v = Fraction(lo if lo is not None else (hi if hi is not None else 1))
        elif self.model[name] is None:
            raise Unrepresentable(name)
        else:
            v = Fraction(self.model[name])
        if v.denominator != 1:
            raise Unrepresentable(name)
        return int(v)

    def string(self, name, maxlen, alphabet):
        n = self.choice(name + '.len', list(range(maxlen + 1)))
        out = []
        for i in range(n):
            v = self.model.get('%s.%d' % (name, i))
            if v is None:
                v = ord(sorted(alphabet)[0])
            out.append(chr(int(Fraction(v))))
        return ''.join(out)

    def date(self, name):
        import datetime
        vals = []
        for part, dflt in (('y', 2000), ('m', 1), ('d', 1)):
            k = '%s.%s' % (name, part)
            v = self.model.get(k, dflt)
            if v is None:
                raise Unrepresentable(k)
            vals.append(int(Fraction(v)))
        return datetime.date(*vals)

    def choice(self, name, options):
        if name not in self.choices:
            # choice made after the point the counterexample was taken: any option will do
            return options[0]
        return options[self.choices[name]]

    def assume(self, cond):
        if not cond:
            raise PathAbort('assume-false')

    def hint(self, cond):
        pass

    # obligations
    def check(self, prop, label, key=None, info=None):
        if prop is NotImplemented:
            raise TypeError("comparison returned NotImplemented")
        ok = bool(prop)
        rec = {'label': label, 'key': key or label, 'ok': ok}
        if info is not None:
            rec['info'] = info
        self.obls.append(rec)
        return ok

    def fail(self, label, key=None, info=None):
        return self.check(False, label, key=key, info=info)

    def ok(self, label, key=None):
        return self.check(True, label, key=key)

    def observe(self, label, value):
        self.obs.append([label, self._enc(value)])

    def _enc(self, value):
        if isinstance(value, bool) or value is None or isinstance(value, str):
            return value
        if isinstance(value, (tuple, list)):
            return [self._enc(v) for v in value]
        try:
            return enc_num(value)
        except (TypeError, ValueError):
            return repr(value)

    # formula helpers
    @staticmethod
    def And(*a): return all(bool(x) for x in a)
    @staticmethod
    def Or(*a): return any(bool(x) for x in a)
    @staticmethod
    def Not(a): return not a
    @staticmethod
    def Implies(a, b): return (not a) or bool(b)
    @staticmethod
    def Iff(a, b): return bool(a) == bool(b)
    @staticmethod
    def is_int(x): return Fraction(x).denominator == 1
    @staticmethod
    def abs(x): return abs(x)
    @staticmethod
    def ite(c, a, b): return a if c else b
    @staticmethod
    def is_symbolic(x): return False
    @staticmethod
    def exact(x): return Fraction(x)

    @staticmethod
    def is_rounding(mode, m, v):
        m, v = Fraction(m), Fraction(v)
        return m.denominator == 1 and int(m) == round_q(mode, v)

    @staticmethod
    def div_is_rounding(mode, m, x, y):
        return int(m) == round_q(mode, Fraction(int(x), int(y)))

    @staticmethod
    def hash_of(obj):
        return (hash(obj), ())

    @staticmethod
    def hash_equal(ha, hb):
        return ha[0] == hb[0]

    @staticmethod
    def value_of(k):
        return int(k)

    def stub(self, name):
        pass

    def n_roundings(self):
        return None

    def rounding_args(self):
        return None


def round_q(mode, v):
    """Textbook rounding of a rational to an integer (independent of decimalfp)."""
    import math
    v = Fraction(v)
    name = getattr(mode, 'name', str(mode))
    fl = math.floor(v)
    if v == fl:
        return fl
    ce = fl + 1
    tr = fl if v >= 0 else ce            # towards zero
    aw = ce if v >= 0 else fl            # away from zero
    if name == 'ROUND_FLOOR':
        return fl
    if name == 'ROUND_CEILING':
        return ce
    if name == 'ROUND_DOWN':
        return tr
    if name == 'ROUND_UP':
        return aw
    if name == 'ROUND_05UP':
        return aw if abs(tr) % 10 in (0, 5) else tr
    d = v - fl                           # in (0, 1)
    if d < Fraction(1, 2):
        return fl
    if d > Fraction(1, 2):
        return ce
    if name == 'ROUND_HALF_UP':
        return aw
    if name == 'ROUND_HALF_DOWN':
        return tr
    if name == 'ROUND_HALF_EVEN':
        return fl if fl % 2 == 0 else ce
    raise ValueError(mode)
