"""Concrete runner: executes scenario functions on real numbers on the default build
(C decimalfp, no proxies).  One forked child per task so that registries are fresh.

usage: python -m symx.conc_runner <tasks.json> <results.jsonl>
"""
from __future__ import annotations

import sys as _sys
try:
    _sys.set_int_max_str_digits(0)
except AttributeError:
    pass

import importlib
import json
import os
import sys
import traceback


def run_task(task):
    from .concrete import ConcreteEngine, PathAbort, Unrepresentable
    mod = importlib.import_module(task['scen'])
    fn = getattr(mod, task['fn'])
    E = ConcreteEngine(task.get('model'), task.get('choices'), task.get('opts'))
    E.cfg = task['cfg']
    res = {'id': task['id']}
    try:
        fn(E, task['cfg'])
        res['status'] = 'ok'
    except Unrepresentable as e:
        res['status'] = 'unrepresentable'
        res['exc'] = str(e)
    except PathAbort as e:
        res['status'] = 'abort'
        res['exc'] = str(e)
    except Exception as e:      # library exception that the scenario did not expect
        tb, last = e.__traceback__, None
        while tb is not None:
            last = tb.tb_frame.f_code.co_filename
            tb = tb.tb_next
        here = os.path.dirname(os.path.dirname(os.path.abspath(__file__)))
        if last and os.path.realpath(last).startswith(os.path.realpath(here) + os.sep):
            res['status'] = 'error'          # raised by harness code itself: not a property violation
            res['exc'] = traceback.format_exc()[-1200:]
            res['obls'] = E.obls
            res['obs'] = E.obs
            return res
        res['status'] = 'ok'
        key = 'unexpected-exception:%s' % type(e).__name__
        E.obls.append({'label': key, 'key': key, 'ok': False,
                       'info': traceback.format_exc()[-800:]})
    res['obls'] = E.obls
    res['obs'] = E.obs
    return res


def main(argv):
    tasks = json.load(open(argv[1]))
    out_path = argv[2]
    if os.environ.get('DECIMALFP_FORCE_PYTHON_IMPL') and not os.environ.get('SYMX_ALLOW_PY_IMPL'):
        print("conc_runner must run on the default decimalfp build", file=sys.stderr)
        return 3
    mods = sorted({t['scen'] for t in tasks})
    for m in mods:
        mod = importlib.import_module(m)
        if hasattr(mod, 'setup'):
            mod.setup('conc')
    for task in tasks:
        pid = os.fork()
        if pid == 0:
            try:
                import signal
                signal.alarm(int(os.environ.get('SYMX_CONC_TASK_S', '120')))   # a concrete run must end
                res = run_task(task)
            except BaseException as e:
                res = {'id': task['id'], 'status': 'error',
                       'exc': traceback.format_exc()[-1500:]}
            data = (json.dumps(res, default=str) + "\n").encode()
            fd = os.open(out_path, os.O_WRONLY | os.O_APPEND | os.O_CREAT, 0o644)
            os.write(fd, data)
            os.close(fd)
            os._exit(0)
        _, status = os.waitpid(pid, 0)
        if status != 0:
            with open(out_path, 'a') as f:
                f.write(json.dumps({'id': task['id'],
                                    'status': 'crash-signal' if status & 0x7f else 'error',
                                    'exc': 'child status %d' % status}) + "\n")
    return 0


if __name__ == '__main__':
    sys.exit(main(sys.argv))
