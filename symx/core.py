"""Symbolic engine: path condition, fork-based path splitting, obligations, records.

One Engine object lives in every process of a job.  The first `bool()` on a
SymBool whose two outcomes are both feasible forks: the child continues with the
condition, the parent waits for it and then continues with the negation.  Every
leaf (end of the scenario function, by return or exception) appends one JSON
record to the job's record file.
"""
from __future__ import annotations

import json
import os
import signal
import subprocess
import sys
import tempfile
import time
import traceback
from fractions import Fraction

import z3

try:
    sys.set_int_max_str_digits(0)      # solver models may hold very long integers
except AttributeError:
    pass


class PathAbort(BaseException):
    """The current path is infeasible / assumption violated / budget exhausted."""


class HarnessError(Exception):
    """The harness (proxy, stub, engine) cannot represent what the code did."""


class ConcretisationLeak(HarnessError):
    """A proxy's concrete dummy payload was about to be read."""


def enc_num(v):
    """Canonical JSON-able encoding of an exact number."""
    if isinstance(v, bool):
        return v
    if isinstance(v, int):
        return str(v)
    f = Fraction(v)
    if f.denominator == 1:
        return str(f.numerator)
    return "%d/%d" % (f.numerator, f.denominator)


def z3_to_py(val):
    """z3 numeral -> int / Fraction / bool, or None when not a rational numeral."""
    if z3.is_int_value(val):
        return val.as_long()
    if z3.is_rational_value(val):
        return Fraction(val.numerator_as_long(), val.denominator_as_long())
    if z3.is_true(val):
        return True
    if z3.is_false(val):
        return False
    return None


def real_val(v):
    """Python exact number -> z3 Real numeral."""
    if isinstance(v, int):
        return z3.RealVal(v)
    f = Fraction(v)
    return z3.RealVal(f.numerator) / z3.RealVal(f.denominator) \
        if f.denominator != 1 else z3.RealVal(f.numerator)


def q_val(v):
    f = Fraction(v)
    return z3.Q(f.numerator, f.denominator)


class Engine:
    mode = 'sym'

    def __init__(self, rec_path, deadline, opts=None):
        opts = opts or {}
        self.opts = opts
        self.rec_path = rec_path
        self.deadline = deadline
        self.feas_ms = int(opts.get('feas_ms', 2000))
        self.obl_ms = int(opts.get('obl_ms', 20000))
        self.solver = z3.Solver()
        self.pc = []
        self.model = None            # a model of the current pc (or None)
        self.depth = 0               # fork depth of this process
        self.is_child = False
        self.decisions = 0
        self.forks = 0
        self.nq = 0
        self.tq = 0.0
        self.maxq = 0.0
        self.n_unknown_feas = 0
        self.obls = []
        self.obs = []
        self.inputs = {}             # name -> (kind, z3 var, flavour)
        self.choices = {}            # name -> chosen index
        self.hints = []
        self.cex_hints = []
        self.notes = []
        self.stub_calls = {}
        self._fresh = 0
        self.trail = []              # short textual trace of decisions
        self.cfg = None
        self.float_log = []
        self._floors = {}
        self.hash_log = []
        self.hash_recording = False
        self.loose_hashes = []
        self.round_log = []
        self.markers = []
        self.n_concretised = 0

    # ------------------------------------------------------------- watchdog
    def arm_watchdog(self):
        """a path that does not return (e.g. a loop that never ends on a mutated tree) is cut when the
        job deadline passes: SIGALRM raises PathAbort in this process"""
        def on_alarm(signum, frame):
            self.notes.append('budget-exhausted')
            raise PathAbort('budget (watchdog)')
        try:
            signal.signal(signal.SIGALRM, on_alarm)
            signal.setitimer(signal.ITIMER_REAL, max(1.0, self.deadline - time.time() + 2.0))
        except (ValueError, OSError):
            pass

    # ------------------------------------------------------------ variables
    def fresh(self, sort, prefix='t'):
        self._fresh += 1
        name = "%s!%d" % (prefix, self._fresh)
        return z3.Int(name) if sort == 'int' else z3.Real(name)

    def stub(self, name):
        self.stub_calls[name] = self.stub_calls.get(name, 0) + 1

    def floor_var(self, z):
        """integer variable f with f <= z < f + 1 (definitional floor, no to_int / is_int terms), memoised"""
        key = z.get_id()
        f = self._floors.get(key)
        if f is None:
            f = self.fresh('int', 'floor')
            self._add(z3.And(z3.ToReal(f) <= z, z < z3.ToReal(f) + 1))
            self._floors[key] = f
        return f

    def is_int_z(self, z):
        """formula 'real term z is an integer' through the definitional floor"""
        zs = z3.simplify(z)
        if z3.is_rational_value(zs):
            return z3.BoolVal(zs.denominator_as_long() == 1)
        return zs == z3.ToReal(self.floor_var(zs))

    def fresh_bool(self, prefix='b'):
        self._fresh += 1
        return z3.Bool("%s!%d" % (prefix, self._fresh))

    # ------------------------------------------------- helpers for the proxies
    def forced_const(self, z):
        """numeral v if the path condition forces z == v, else None"""
        m = self.model
        if m is None:
            r, m = self._query([], self.feas_ms)
            if r != 'sat':
                return None
            self.model = m
        v = m.eval(z, model_completion=True)
        if not (z3.is_rational_value(v) or z3.is_int_value(v)):
            return None
        r, _ = self._query([z != v], self.feas_ms)
        if r == 'unsat':
            return v
        return None

    def linearise(self, a, b):
        """before a product / quotient of two symbolic terms: replace one by its
        forced constant value when the path condition fixes it (DESIGN 2.4)"""
        sa, sb = z3.simplify(a), z3.simplify(b)
        if z3.is_rational_value(sa) or z3.is_rational_value(sb):
            return sa, sb
        if not self.opts.get('linearise'):
            return sa, sb
        cb = self.forced_const(sb)
        if cb is not None:
            return sa, cb
        ca = self.forced_const(sa)
        if ca is not None:
            return ca, sb
        return sa, sb

    def concretise(self, symint, limit=64):
        """split a finite-range symbolic integer into its feasible values"""
        from . import proxies as P
        if not isinstance(symint, P.SymInt):
            return int(symint)
        z = symint.z
        for _ in range(limit):
            m = self.model
            if m is None:
                r, m = self._query([], self.feas_ms)
                if r != 'sat':
                    raise PathAbort('concretise: no model')
                self.model = m
            v = m.eval(z, model_completion=True)
            if not z3.is_int_value(v):
                raise HarnessError("concretise: non-integer model value")
            self.n_concretised += 1
            if self.branch(z == v):
                return v.as_long()
        raise HarnessError("concretise: more than %d values" % limit)

    def magnitude(self, z):
        """k with 10^k <= |z| < 10^(k+1) for z != 0, k in the declared range
        (finite table); outside the range the path is cut and counted."""
        from . import proxies as P
        lo, hi = self.opts.get('mag_range', (-9, 15))
        az = z3.If(z >= 0, z, -z)
        inside = z3.And(az >= q_val(Fraction(10) ** lo), az < q_val(Fraction(10) ** (hi + 1)))
        if not self.branch(inside):
            self.notes.append('magnitude-outside-range')
            raise PathAbort('magnitude-outside-range')
        k = self.fresh('int', 'mag')
        self._add(z3.Or(*[z3.And(k == i, az >= q_val(Fraction(10) ** i),
                                 az < q_val(Fraction(10) ** (i + 1)))
                          for i in range(lo, hi + 1)]))
        self.model = None
        return P.SymInt(k)

    # markers for text produced from symbolic numbers (DESIGN 3.4)
    def marker_for(self, proxy):
        for i, p in enumerate(self.markers):
            if p is proxy:
                return "\u27e6%d\u27e7" % i
        self.markers.append(proxy)
        return "\u27e6%d\u27e7" % (len(self.markers) - 1)

    def is_marker(self, s):
        return type(s) is str and len(s) >= 3 and s[0] == "\u27e6" and s[-1] == "\u27e7" \
            and s[1:-1].isdigit() and int(s[1:-1]) < len(self.markers)

    def marker_value(self, s):
        return self.markers[int(s[1:-1])]

    # ----------------------------------------------------- scenario inputs
    def rational(self, name, flav='dec'):
        """an arbitrary rational (no bound), held as decimal / fraction / int"""
        from . import proxies as P
        if flav == 'int':
            return self.integer(name)
        var = z3.Real(name)
        self.inputs[name] = ('rat', var, flav)
        return P.SymDec(var) if flav == 'dec' else P.SymFrac(var)

    def rational_over(self, name, den, flav='frac'):
        """an arbitrary rational with the concrete denominator `den`: N / den, N an unbounded integer
        (its numerator / denominator are then linear, see proxies._linear_over_grid)"""
        from . import proxies as P
        var = z3.Int(name)
        self.inputs[name] = ('int', var, 'int')
        self.grid_vars = [var]
        self.grid_den = den
        z = z3.ToReal(var) / den
        return P.SymFrac(z) if flav == 'frac' else P.SymDec(z)

    def integer(self, name, lo=None, hi=None):
        from . import proxies as P
        var = z3.Int(name)
        self.inputs[name] = ('int', var, 'int')
        if lo is not None:
            self._add(var >= lo)
        if hi is not None:
            self._add(var <= hi)
        self.model = None
        return P.SymInt(var)

    def string(self, name, maxlen, alphabet):
        """an arbitrary string over `alphabet` of length 0..maxlen (length split per value)"""
        from .symstr import SymStr
        n = self.choice(name + '.len', list(range(maxlen + 1)))
        codes = sorted({ord(ch) for ch in alphabet})
        chars = []
        for i in range(n):
            var = z3.Int('%s.%d' % (name, i))
            self.inputs['%s.%d' % (name, i)] = ('int', var, 'int')
            self._add(z3.Or(*[var == c for c in codes]))
            chars.append(var)
        return SymStr(chars, codes)

    def date(self, name):
        """an arbitrary calendar-valid date, year 1..9999"""
        from . import proxies as P
        y, m, d = z3.Int(name + '.y'), z3.Int(name + '.m'), z3.Int(name + '.d')
        for part, var in (('y', y), ('m', m), ('d', d)):
            self.inputs['%s.%s' % (name, part)] = ('int', var, 'int')
        leap = z3.And(y % 4 == 0, z3.Or(y % 100 != 0, y % 400 == 0))
        dim = z3.If(z3.Or(m == 4, m == 6, m == 9, m == 11), 30, z3.If(m == 2, z3.If(leap, 29, 28), 31))
        self._add(z3.And(y >= 1, y <= 9999, m >= 1, m <= 12, d >= 1, d <= dim))
        return P.SymDate(y, m, d)

    # formula helpers (same names on the concrete engine)
    @staticmethod
    def And(*a): return _fb(z3.And(*[as_z3_bool(x) for x in a]))
    @staticmethod
    def Or(*a): return _fb(z3.Or(*[as_z3_bool(x) for x in a]))
    @staticmethod
    def Not(a): return _fb(z3.Not(as_z3_bool(a)))
    @staticmethod
    def Implies(a, b): return _fb(z3.Implies(as_z3_bool(a), as_z3_bool(b)))
    @staticmethod
    def Iff(a, b): return _fb(as_z3_bool(a) == as_z3_bool(b))

    @staticmethod
    def is_int(x):
        from . import proxies as P
        if isinstance(x, P.SymInt):
            return True
        if isinstance(x, P.SymRat):
            return _fb(z3.IsInt(x.z))
        return Fraction(x).denominator == 1

    @staticmethod
    def abs(x): return abs(x)

    @staticmethod
    def ite(c, a, b):
        from . import proxies as P
        if isinstance(c, bool):
            return a if c else b
        la, lb = P._lift(a), P._lift(b)
        return P.SymFrac(z3.If(as_z3_bool(c), la[0], lb[0]))

    @staticmethod
    def is_symbolic(x):
        from . import proxies as P
        return isinstance(x, (P.SymRat, P.SymInt, P.SymBool))

    @staticmethod
    def exact(x):
        from . import proxies as P
        if isinstance(x, P.SymRat):
            return P.SymFrac(x.z)
        if isinstance(x, P.SymInt):
            return P.SymFrac(z3.ToReal(x.z))
        return Fraction(x)

    def is_rounding(self, mode, m, v):
        """formula: m is an integer and equals rational v rounded under `mode`
        (textbook definition over the rationals, proxies.round_spec)"""
        from . import proxies as P
        mz = P._lift(m)[0]
        vz = P._lift(v)[0]
        mi = z3.ToInt(mz)
        return _fb(z3.And(z3.IsInt(mz), P.round_spec(mode, mi, vz, pure=True)))

    def div_is_rounding(self, mode, m, x, y):
        """formula over integers, y > 0: m == x / y rounded under `mode`, stated
        without division (d = x - m*y compared with y)"""
        from . import proxies as P
        return _fb(P.div_round_spec(mode, P.SymInt._l(m), P.SymInt._l(x), P.SymInt._l(y)))

    def hash_of(self, obj):
        """hash(obj) with the symbolic numbers it hashed recorded (DESIGN 3.2):
        -> (concrete residue, tuple of z3 terms in hashing order)"""
        # cached hashes of terms were computed outside the recording: drop them (harness-level reset of
        # a private cache; stale-cache behaviour is therefore outside this device, see DESIGN 3.2)
        for t in (obj, getattr(obj, '_normalized', None)):
            if t is not None and type(t).__name__ == 'Term' and hasattr(t, '_hash'):
                try:
                    del t._hash
                except AttributeError:
                    pass
        self.hash_log = []
        self.hash_recording = True
        try:
            h = hash(obj)
        finally:
            self.hash_recording = False
        terms = tuple(self.hash_log)
        self.hash_log = []
        return (h, terms)

    def loose_hash(self, z):
        """hash() of a symbolic number outside hash_of (DESIGN 3.2): the constant returned makes all such hashes
        collide, which is exact for containers (they fall back on the symbolic ==) and an over-approximation for code
        that uses the value itself.  For the latter a hint is left for the choice of counterexample models: the first
        two different numbers hashed this way form a real collision of CPython's numeric hash (they differ by the
        modulus 2**61 - 1 on one side of zero, or are -1 and -2), so that a candidate can reproduce in the replay."""
        if z.sort() == z3.IntSort():
            z = z3.ToReal(z)
        self.loose_hashes.append(z)
        if len(self.loose_hashes) < 2 or getattr(self, '_loose_hinted', False):
            return
        z1 = self.loose_hashes[0]
        for z2 in self.loose_hashes[1:]:
            if not z1.eq(z2):
                m = 2 ** 61 - 1
                self.hint(z3.Or(z3.And(z1 >= 0, z2 == z1 + m), z3.And(z1 <= 0, z2 == z1 - m),
                                z3.And(z1 == -1, z2 == -2), z3.And(z1 == -2, z2 == -1)), cex_only=True)
                self._loose_hinted = True
                self.notes.append('hash-value-used-outside-recording')
                break

    def hash_equal(self, ha, hb):
        """formula: the two recorded hashes are equal for every valuation: same concrete residue and
        pairwise equal hashed numbers (equal rationals hash equal whatever their type: trusted)"""
        from . import proxies as P
        if ha[0] != hb[0] or len(ha[1]) != len(hb[1]):
            return False
        conj = [P._lift_z(x) == P._lift_z(y) for x, y in zip(ha[1], hb[1])]
        return _fb(z3.And(True, *conj))

    def value_of(self, k):
        """concrete value of a finite-range symbolic integer on this path (splits)"""
        return self.concretise(k)

    def n_roundings(self):
        return len(self.round_log)

    def rounding_args(self):
        """(argument handed to the rounding stub, rounded integer) per call"""
        from . import proxies as P
        return [(P.SymFrac(y), P.SymInt(m), mode) for (m, y, mode) in self.round_log]

    # --------------------------------------------------------------- solver
    def _add(self, cond):
        self.pc.append(cond)
        self.solver.add(cond)
        # the cached model stays valid only if it satisfies the new conjunct
        if self.model is not None and self._eval_bool(cond) is not True:
            self.model = None

    def _query(self, extra, ms):
        """check pc + extra; returns ('sat', model) / ('unsat', None) / ('unknown', None)"""
        s = self.solver
        s.set('timeout', ms)
        s.push()
        try:
            for e in extra:
                s.add(e)
            t0 = time.time()
            r = s.check()
            dt = time.time() - t0
            self.nq += 1
            self.tq += dt
            if dt > self.maxq:
                self.maxq = dt
            if r == z3.sat:
                return 'sat', s.model()
            if r == z3.unsat:
                return 'unsat', None
            return 'unknown', None
        finally:
            s.pop()

    def _eval_bool(self, cond):
        """evaluate cond under the cached model -> True / False / None"""
        if self.model is None:
            return None
        try:
            v = self.model.eval(cond, model_completion=True)
        except z3.Z3Exception:
            return None
        if z3.is_true(v):
            return True
        if z3.is_false(v):
            return False
        return None

    def _check_deadline(self):
        if time.time() > self.deadline:
            self.notes.append('budget-exhausted')
            raise PathAbort('budget')

    # ------------------------------------------------------------ branching
    def branch(self, cond, tag=None):
        """Decide a boolean condition on this path, forking when both outcomes are
        feasible.  `cond` is a z3 Bool."""
        cond = z3.simplify(cond)
        if z3.is_true(cond):
            return True
        if z3.is_false(cond):
            return False
        self._check_deadline()
        ncond = z3.Not(cond)
        guess = self._eval_bool(cond)
        mt = mf = None
        if guess is True:
            t_ok, mt = True, self.model
            r, mf = self._query([ncond], self.feas_ms)
            f_ok = r != 'unsat'
            if r == 'unknown':
                self.n_unknown_feas += 1
        elif guess is False:
            f_ok, mf = True, self.model
            r, mt = self._query([cond], self.feas_ms)
            t_ok = r != 'unsat'
            if r == 'unknown':
                self.n_unknown_feas += 1
        else:
            r, mt = self._query([cond], self.feas_ms)
            t_ok = r != 'unsat'
            if r == 'unknown':
                self.n_unknown_feas += 1
            r2, mf = self._query([ncond], self.feas_ms)
            f_ok = r2 != 'unsat'
            if r2 == 'unknown':
                self.n_unknown_feas += 1
        if t_ok and f_ok:
            self.decisions += 1
            if self._fork():
                self._add(cond)
                self.model = mt
                self.trail.append('T')
                return True
            self._add(ncond)
            self.model = mf
            self.trail.append('F')
            return False
        if t_ok:
            return True
        if f_ok:
            return False
        self.notes.append('infeasible-path')
        raise PathAbort('infeasible')

    def _fork(self):
        """fork; returns True in the child, False in the parent (after the child
        and all its descendants are done)."""
        sys.stdout.flush()
        sys.stderr.flush()
        pid = os.fork()
        if pid == 0:
            self.is_child = True
            self.arm_watchdog()
            self.depth += 1
            self.forks = 0
            self.nq = 0
            self.tq = 0.0
            self.n_unknown_feas = 0
            self.n_concretised = 0
            return True
        _, status = os.waitpid(pid, 0)
        self.forks += 1
        if status != 0:
            self._write({'kind': 'crash', 'status': status,
                         'trail': ''.join(self.trail[-40:])})
        return False

    def choice(self, name, options):
        """Walk a finite dimension: returns each option on its own path."""
        n = len(options)
        if n == 0:
            raise PathAbort('empty choice')
        for i in range(n - 1):
            self._check_deadline()
            if self._fork():
                self.choices[name] = i
                self.trail.append('c%d' % i)
                return options[i]
        self.choices[name] = n - 1
        self.trail.append('c%d' % (n - 1))
        return options[n - 1]

    def assume(self, cond):
        z = as_z3_bool(cond)
        z = z3.simplify(z)
        if z3.is_true(z):
            return
        if z3.is_false(z):
            raise PathAbort('assume-false')
        self._add(z)

    def hint(self, cond, cex_only=False):
        """Soft constraint used only when picking models: witness and counterexample models, or (cex_only)
        counterexample models only -- such hints cost nothing on paths whose obligations all hold."""
        (self.cex_hints if cex_only else self.hints).append(as_z3_bool(cond))

    # ---------------------------------------------------------- obligations
    def check(self, prop, label, key=None, info=None):
        """Obligation: `prop` must hold for every valuation of the current path."""
        z = as_z3_bool(prop)
        zs = z3.simplify(z)
        rec = {'label': label, 'key': key or label}
        if info is not None:
            rec['info'] = info
        if z3.is_true(zs):
            rec['verdict'] = 'unsat'
            rec['trivial'] = True
            rec['t'] = 0.0
            self.obls.append(rec)
            return True
        t0 = time.time()
        if z3.is_false(zs):
            r, m = self._query([], self.obl_ms)
            if r == 'unsat':
                # the path itself is infeasible: vacuous, flag it
                rec['verdict'] = 'vacuous'
                self.obls.append(rec)
                return True
        else:
            r, m = self._query([z3.Not(zs)], self.obl_ms)
        if r == 'unknown':
            r, m = self._retry_fresh(z3.Not(zs))
        if r == 'unknown' and self.round_log:
            r, m = self._probe_ties(z3.Not(zs))
            if r == 'sat':
                rec['found_by'] = 'tie probing (negated obligation strengthened with "a rounding argument is an exact tie")'
        rec['t'] = round(time.time() - t0, 4)
        if r == 'unsat':
            rec['verdict'] = 'unsat'
            self.obls.append(rec)
            return True
        if r == 'sat':
            rec['verdict'] = 'sat'
            if self._count_failure(rec['key']) <= 4:
                rec['model'] = self._input_model(m, z3.Not(zs))[0]
            else:
                rec['model'] = self._input_model(m, None, nice=False)[0]
            rec['choices'] = dict(self.choices)
            self.obls.append(rec)
            return False
        rec['verdict'] = 'unknown'
        self.obls.append(rec)
        return None

    def fail(self, label, key=None, info=None):
        """A concrete failure on this path (e.g. wrong exception class)."""
        return self.check(z3.BoolVal(False), label, key=key, info=info)

    def ok(self, label, key=None):
        return self.check(z3.BoolVal(True), label, key=key)

    def _probe_ties(self, neg):
        """An obligation over rounded values stayed undecided.  Counterexamples of rounding properties sit at
        ties: strengthen the negated obligation with 'the argument of one rounding is an exact tie' (and, for a
        later rounding, 'an earlier one was inexact') and ask again -- a satisfying assignment of the
        strengthened query is a genuine counterexample of the original one; unsat / unknown prove nothing."""
        half = z3.Q(1, 2)
        log = self.round_log[-4:]
        probes = []
        for i, (mi, yi, _) in enumerate(log):
            d = yi - z3.ToReal(mi)
            tie = z3.Or(d == half, d == -half)
            probes.append(tie)
            for (mj, yj, _) in log[:i]:
                probes.append(z3.And(tie, yj != z3.ToReal(mj)))
        for pr in reversed(probes):
            r, m = self._query([neg, pr], min(self.obl_ms, 5000))
            if r == 'sat':
                return 'sat', m
        return 'unknown', None

    def _retry_fresh(self, neg):
        """An obligation came back unknown: try a fresh non-incremental z3 solver,
        then the external solvers."""
        t0 = time.time()
        long_ms = self.obl_ms * 4          # second and third opinion get more time than the first attempt
        s = z3.Solver()
        s.set('timeout', long_ms)
        s.add(*self.pc)
        s.add(neg)
        r = s.check()
        self.nq += 1
        self.tq += time.time() - t0
        if r == z3.sat:
            return 'sat', s.model()
        if r == z3.unsat:
            return 'unsat', None
        smt = s.to_smt2()
        r = external_check(smt, long_ms)
        if r == 'unsat':
            self.notes.append('obligation-decided-by-external-solver')
            return 'unsat', None
        return 'unknown', None

    # -------------------------------------------------------------- witness
    def _count_failure(self, key):
        """number of failures of `key` recorded so far in this job (all paths)"""
        p = self.rec_path + '.fail'
        try:
            with open(p, 'a') as f:
                f.write(key + "\n")
            with open(p) as f:
                return sum(1 for l in f if l.rstrip("\n") == key)
        except OSError:
            return 0

    def _input_model(self, model, extra=None, nice=True):
        """input name -> encoded value under `model`; tries to make decimal-
        flavoured inputs decimal-representable."""
        hinted = []
        all_hints = list(self.hints) + list(self.cex_hints)
        if all_hints and extra is not None:
            # stubs may have left hints about which values make their chosen outcome real
            r, mh = self._query([extra] + all_hints, min(self.feas_ms, 1500))
            if r == 'sat':
                model = mh
                hinted = all_hints
        out = {}
        bad = False
        for name, (kind, var, flav) in self.inputs.items():
            v = z3_to_py(model.eval(var, model_completion=True))
            if v is None or _too_long(v):
                bad = True
                continue
            if flav == 'dec' and not _is_decimal(v):
                bad = True
            out[name] = enc_num(v)
        if hinted:
            out['_hinted'] = True
        if bad and nice:
            # ask for a nicer model: all rational inputs on a decimal grid (decimal-flavoured ones only when a
            # stub left hints, which typically ask for non-decimal values of the others)
            attempts = [(d, True) for d in (3, 9, 30)] if hinted else []
            attempts += [(d, False) for d in (3, 9, 30)]
            for digits, with_hints in attempts:
                cons = [z3.IsInt(var * (10 ** digits))
                        for (kind, var, flav) in self.inputs.values()
                        if kind == 'rat' and (flav == 'dec' or not with_hints)]
                r, m2 = self._query(([extra] if extra is not None else []) + (hinted if with_hints else []) + cons,
                                    min(self.feas_ms, 1000))
                if r == 'sat':
                    out = {}
                    for name, (kind, var, flav) in self.inputs.items():
                        v = z3_to_py(m2.eval(var, model_completion=True))
                        out[name] = enc_num(v) if (v is not None and not _too_long(v)) else None
                    out['_nice'] = True
                    if with_hints:
                        out['_hinted'] = True
                    return out, m2
            out['_unrepresentable'] = True
        elif bad:
            out['_unrepresentable'] = True
        return out, model

    def final_model(self):
        """A model of the path condition (with hints when possible)."""
        if self.hints:
            r, m = self._query(self.hints, self.feas_ms)
            if r == 'sat':
                return m
        if self.model is not None and not self.hints:
            ok = True
            # cached model is a model of pc only if no assume() invalidated it
            return self.model if ok else None
        r, m = self._query([], self.feas_ms)
        if r == 'sat':
            return m
        return None

    def concretise_float(self, z):
        """pin the real term z to one value of the current path and return it as float (see SymRat.__float__)"""
        grid = [z3.IsInt(var * (10 ** 30)) for (kind, var, flav) in self.inputs.values() if kind == 'rat']
        tries = []
        for prev in reversed(self.float_log[-2:]):
            p = q_val(prev)
            delta = q_val(abs(prev) * Fraction(1, 10 ** 20) + Fraction(1, 10 ** 28))
            tries.append(grid + [z != p, z - p <= delta, p - z <= delta])
        tries.append([z >= 2 ** 70, z3.Not(z3.IsInt(z)), z3.IsInt(z * 2)])          # huge half-integers (int / 2 of a huge odd int)
        tries.append(grid + [z == q_val(Fraction(3000000000000000000007, 10 ** 22))])
        tries.append(grid + [z != 0])
        tries.append([])
        val = None
        for cons in tries:
            r, m = self._query(cons, min(self.feas_ms, 1500))
            if r == 'sat':
                v = z3_to_py(m.eval(z, model_completion=True))
                if v is not None:
                    val = Fraction(v)
                    break
        if val is None:
            raise ConcretisationLeak('float() of a symbolic value: no model')
        self._add(z == q_val(val))
        self.model = None
        self.float_log.append(val)
        self.notes.append('concretised-by-float')
        return float(val)

    def probe_models(self, limit=10):
        """input assignments for concrete probing after a concretisation leak: a model of the path
        condition plus perturbations of each rational input (tiny absolute / relative offsets, long
        mantissas) that still satisfy the path condition"""
        m = self.final_model()
        if m is None:
            return []
        base = {}
        for name, (kind, var, flav) in self.inputs.items():
            v = z3_to_py(m.eval(var, model_completion=True))
            if v is None:
                return []
            base[name] = v
        out = [dict(base)]
        eps = [Fraction(1, 10 ** 25), -Fraction(1, 10 ** 25), Fraction(1, 3 * 10 ** 20)]
        rats = [n for n, (k, v, f) in self.inputs.items() if k == 'rat']
        cands = []
        for n in rats:
            for e in eps:
                c = dict(base)
                c[n] = base[n] + e
                cands.append(c)
                if base[n] != 0:
                    c2 = dict(base)
                    c2[n] = base[n] * (1 + e)
                    cands.append(c2)
        if len(rats) >= 2:
            c = dict(base)
            c[rats[0]] = base[rats[0]] + eps[0]
            c[rats[1]] = base[rats[1]] - eps[0]
            cands.append(c)
        for c in cands:
            if len(out) >= limit:
                break
            cons = [self.inputs[n][1] == (q_val(v) if self.inputs[n][0] == 'rat' else int(v)) for n, v in c.items()]
            r, _ = self._query(cons, min(self.feas_ms, 1000))
            if r == 'sat':
                out.append(c)
        return [{k: enc_num(v) for k, v in c.items()} for c in out]

    # --------------------------------------------------------- observations
    def observe(self, label, value):
        self.obs.append((label, value))

    def _enc_obs(self, value, model):
        from . import proxies as P
        if isinstance(value, (P.SymRat, P.SymInt)):
            if model is None:
                return '?'
            v = z3_to_py(model.eval(value.z, model_completion=True))
            return enc_num(v) if v is not None else '?'
        if isinstance(value, P.SymBool):
            if model is None:
                return '?'
            v = z3_to_py(model.eval(value.z, model_completion=True))
            return v if v is not None else '?'
        if isinstance(value, bool) or value is None:
            return value
        if isinstance(value, str):
            return value
        if isinstance(value, (tuple, list)):
            return [self._enc_obs(v, model) for v in value]
        try:
            return enc_num(value)
        except (TypeError, ValueError):
            return repr(value)

    # -------------------------------------------------------------- records
    def _write(self, rec):
        data = (json.dumps(rec, default=str) + "\n").encode()
        fd = os.open(self.rec_path, os.O_WRONLY | os.O_APPEND | os.O_CREAT, 0o644)
        try:
            os.write(fd, data)
        finally:
            os.close(fd)

    def finish_path(self, outcome, exc=None, funcs=None):
        rec = {'kind': 'path', 'outcome': outcome, 'decisions': self.decisions,
               'pc': len(self.pc), 'nq': self.nq, 'tq': round(self.tq, 4),
               'maxq': round(self.maxq, 4), 'unknown_feas': self.n_unknown_feas,
               'forks': self.forks, 'concretised': self.n_concretised,
               'obls': self.obls, 'choices': self.choices, 'notes': self.notes,
               'stubs': self.stub_calls, 'trail': ''.join(self.trail[-60:])}
        if exc is not None:
            rec['exc'] = exc
        if getattr(self, 'leak_info', None):
            rec['leak'] = self.leak_info
        if funcs is not None:
            rec['funcs'] = funcs
        model = None
        if outcome != 'abort':
            try:
                model = self.final_model()
            except z3.Z3Exception:
                model = None
        if model is not None:
            rec['model'], model = self._input_model(model)
            rec['obs'] = [[l, self._enc_obs(v, model)] for l, v in self.obs]
        else:
            rec['model'] = None
            rec['obs'] = None
        if self.opts.get('dump_pc') and self.pc:
            rec['pc_text'] = [str(c)[:300] for c in self.pc[:12]]
        self._write(rec)


def _fb(z):
    from . import proxies as P
    z = z3.simplify(z)
    if z3.is_true(z):
        return True
    if z3.is_false(z):
        return False
    return P.SymBool(z)


def _too_long(v):
    """numerals with thousands of digits are useless as witnesses"""
    f = Fraction(v)
    return f.numerator.bit_length() > 4000 or f.denominator.bit_length() > 4000


def _is_decimal(v):
    if isinstance(v, int):
        return True
    d = Fraction(v).denominator
    for p in (2, 5):
        while d % p == 0:
            d //= p
    return d == 1


def as_z3_bool(x):
    from . import proxies as P
    if isinstance(x, P.SymBool):
        return x.z
    if isinstance(x, bool):
        return z3.BoolVal(x)
    if z3.is_expr(x):
        return x
    if x is NotImplemented:
        raise HarnessError("comparison returned NotImplemented")
    raise HarnessError("not a boolean: %r" % (x,))


def external_check(smt2_text, ms):
    """Run the query through the external solvers; 'unsat' / 'sat' / 'unknown'.
    Any `(error` line means inconclusive."""
    results = []
    with tempfile.NamedTemporaryFile('w', suffix='.smt2', delete=False) as f:
        f.write(smt2_text)
        path = f.name
    try:
        for cmd in (['/usr/bin/cvc5', '--lang', 'smt2', '--tlimit', str(ms), path],
                    ['/usr/bin/z3', '-T:%d' % max(1, ms // 1000), path]):
            if not os.path.exists(cmd[0]):
                continue
            try:
                p = subprocess.run(cmd, capture_output=True, text=True,
                                   timeout=ms / 1000 + 5)
            except subprocess.TimeoutExpired:
                continue
            out = p.stdout.strip().splitlines()
            if any('(error' in l for l in out) or not out:
                continue
            if out[0].strip() in ('unsat', 'sat'):
                results.append(out[0].strip())
    finally:
        os.unlink(path)
    if results and all(r == results[0] for r in results):
        return results[0]
    return 'unknown'
