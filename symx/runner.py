"""Coordinator: job pool, witness validation, replay, known findings, evidence.

usage (through bin/check): python -m symx.runner <Cxx> [--tier quick|thorough]
Exit codes: 0 held on everything explored; 1 reproduced violation (VIOLATION line);
2 inconclusive / harness error (never reported as success).
"""
from __future__ import annotations

import sys as _sys
try:
    _sys.set_int_max_str_digits(0)
except AttributeError:
    pass

import fnmatch
import hashlib
import importlib
import json
import os
import random
import shutil
import subprocess
import sys
import tempfile
import time
import traceback

ROOT = os.path.dirname(os.path.dirname(os.path.abspath(__file__)))
NPROC = int(os.environ.get('VERIF_NPROC', '0')) or min(16, os.cpu_count() or 4)


def log(*a):
    print(*a, file=sys.stderr, flush=True)


# --------------------------------------------------------------- job process
def job_main(scen_name, job, rec_path, deadline):
    """Runs in a forked job process; never returns."""
    from . import core, proxies
    try:
        mod = importlib.import_module(scen_name)
        fn = getattr(mod, job['fn'])
        opts = dict(job.get('opts') or {})
        E = core.Engine(rec_path, deadline, opts)
        E.cfg = job['cfg']
        proxies.install(E)
        E.arm_watchdog()
        funcs = set()
        mon = _start_monitor(funcs)
        outcome, exc = 'ok', None
        try:
            fn(E, job['cfg'])
        except core.PathAbort as e:
            outcome, exc = 'abort', str(e)
        except core.ConcretisationLeak as e:
            # the library asked for the concrete value of a symbolic number (float(), int(), ...): outside
            # the exact-rational fragment.  Fall back to concrete probing of this path.
            outcome, exc = 'leak', "%s | %s" % (e, traceback.format_exc()[-900:])
            try:
                E.leak_info = {'what': str(e), 'models': E.probe_models(), 'choices': dict(E.choices)}
            except BaseException as e2:
                E.leak_info = {'what': str(e), 'models': [], 'choices': dict(E.choices), 'error': repr(e2)}
        except core.HarnessError as e:
            outcome, exc = 'harness-error', "%s: %s | %s" % (
                type(e).__name__, e, traceback.format_exc()[-1200:])
        except Exception as e:
            if _raised_in_harness(e):
                outcome, exc = 'harness-error', "%s: %s | %s" % (type(e).__name__, e, traceback.format_exc()[-1200:])
                raise_harness = True
            else:
                raise_harness = False
            # a library exception the scenario did not expect: violation candidate
            key = 'unexpected-exception:%s' % type(e).__name__
            if raise_harness:
                key = None
            try:
                if key is not None:
                    E.check(False, key, key=key, info=traceback.format_exc()[-800:])
            except BaseException as e2:
                outcome, exc = 'harness-error', repr(e2)
        except BaseException as e:
            outcome, exc = 'harness-error', "%s: %s" % (type(e).__name__, e)
        _stop_monitor(mon)
        try:
            E.finish_path(outcome, exc, sorted(funcs))
        except BaseException as e:
            try:
                E._write({'kind': 'crash', 'status': -1, 'exc': repr(e)})
            except BaseException:
                pass
            os._exit(7)
        os._exit(0)
    except BaseException:
        try:
            with open(rec_path, 'a') as f:
                f.write(json.dumps({'kind': 'crash', 'status': -2,
                                    'exc': traceback.format_exc()[-1500:]}) + "\n")
        finally:
            os._exit(8)


def _raised_in_harness(e):
    """the innermost frame of the traceback is harness code (scen/, symx/), not the library or the dependency"""
    tb = e.__traceback__
    last = None
    while tb is not None:
        last = tb.tb_frame.f_code.co_filename
        tb = tb.tb_next
    return bool(last) and os.path.realpath(last).startswith(os.path.realpath(ROOT) + os.sep)


_SRC = os.path.realpath(os.path.join(os.environ.get('QUANTITY_SRC') or '/repo/src', 'quantity')) + os.sep


def _start_monitor(funcs):
    mon = getattr(sys, 'monitoring', None)
    if mon is None:
        return None
    tool = mon.COVERAGE_ID
    try:
        mon.use_tool_id(tool, 'symx')
    except ValueError:
        return None

    def on_start(code, offset):
        fn = code.co_filename
        if fn.startswith(_SRC):
            funcs.add("%s:%s" % (fn[len(_SRC):], code.co_qualname))
        return mon.DISABLE

    mon.register_callback(tool, mon.events.PY_START, on_start)
    mon.set_events(tool, mon.events.PY_START)
    return tool


def _stop_monitor(tool):
    if tool is None:
        return
    mon = sys.monitoring
    try:
        mon.set_events(tool, 0)
        mon.free_tool_id(tool)
    except Exception:
        pass


# ------------------------------------------------------------------ job pool
def run_jobs(scen_name, jobs, scratch, default_budget, global_deadline):
    """fork one process per job, at most NPROC at a time; returns list of record lists.
    Jobs that cannot start before the global deadline are skipped (-> inconclusive)."""
    running = {}
    results = [None] * len(jobs)
    nxt = 0
    t_start = time.time()
    while nxt < len(jobs) or running:
        while nxt < len(jobs) and len(running) < NPROC:
            job = jobs[nxt]
            if time.time() > global_deadline:
                results[nxt] = {'recs': [{'kind': 'skipped'}], 'wall': 0.0}
                nxt += 1
                continue
            rec_path = os.path.join(scratch, 'job%05d.jsonl' % nxt)
            budget = (job.get('opts') or {}).get('budget_s', default_budget)
            deadline = min(time.time() + budget, global_deadline + 5)
            sys.stdout.flush()
            sys.stderr.flush()
            pid = os.fork()
            if pid == 0:
                try:
                    os.setsid()            # own process group: the whole path tree can be killed at once
                except OSError:
                    pass
                job_main(scen_name, job, rec_path, deadline)
                os._exit(9)
            running[pid] = (nxt, rec_path, time.time(), deadline)
            nxt += 1
        if not running:
            continue
        # reap finished jobs; a job whose tree is still alive well past its deadline (a solver call that
        # ignores its timeout, an orphaned path process) is killed as a group
        pid, status = 0, 0
        try:
            pid, status = os.waitpid(-1, os.WNOHANG)
        except ChildProcessError:
            pid = 0
        if pid == 0:
            now = time.time()
            for jp, (ji_, rp_, t0_, dl_) in list(running.items()):
                if now > dl_ + 25:
                    try:
                        os.killpg(jp, 9)
                    except (ProcessLookupError, PermissionError):
                        pass
            time.sleep(0.05)
            continue
        if pid not in running:
            continue
        idx, rec_path, t0, _dl = running.pop(pid)
        try:
            os.killpg(pid, 9)              # orphaned path processes of a finished job
        except (ProcessLookupError, PermissionError):
            pass
        recs = []
        if os.path.exists(rec_path):
            with open(rec_path) as f:
                for line in f:
                    line = line.strip()
                    if line:
                        try:
                            recs.append(json.loads(line))
                        except ValueError:
                            recs.append({'kind': 'crash', 'status': -3, 'exc': 'bad record'})
            os.unlink(rec_path)
        if os.path.exists(rec_path + '.fail'):
            os.unlink(rec_path + '.fail')
        if status != 0:
            recs.append({'kind': 'crash', 'status': status, 'exc': 'job process status'})
        results[idx] = {'recs': recs, 'wall': time.time() - t0}
    return results


# ------------------------------------------------------------ concrete phase
CRASH_STATS = {'c_dependency_crashes': 0}


def run_concrete(tasks, scratch):
    """run tasks on the default build in parallel shards; returns id -> result.
    A task whose process dies from a signal inside the C decimalfp extension (0.13.0
    corrupts memory on e.g. Decimal('0.000000001') / Decimal(1), see DESIGN) is re-run
    on the pure-Python decimalfp build and counted."""
    out = _run_concrete(tasks, scratch, False)
    crashed = [t for t in tasks if out.get(t['id'], {}).get('status') == 'crash-signal']
    if crashed:
        CRASH_STATS['c_dependency_crashes'] += len(crashed)
        sub = os.path.join(scratch, 'pyimpl')
        os.makedirs(sub, exist_ok=True)
        out2 = _run_concrete(crashed, sub, True)
        for k, v in out2.items():
            v['via_python_impl'] = True
            if v.get('status') == 'crash-signal':
                v['status'] = 'error'
            out[k] = v
    return out


def _run_concrete(tasks, scratch, py_impl):
    if not tasks:
        return {}
    nshards = max(1, min(NPROC, len(tasks) // 8 or 1))
    shards = [tasks[i::nshards] for i in range(nshards)]
    procs = []
    env = dict(os.environ)
    env.pop('DECIMALFP_FORCE_PYTHON_IMPL', None)
    if py_impl:
        env['DECIMALFP_FORCE_PYTHON_IMPL'] = '1'
        env['SYMX_ALLOW_PY_IMPL'] = '1'
    env['PYTHONPATH'] = ROOT + os.pathsep + env.get('PYTHONPATH', '')
    for i, shard in enumerate(shards):
        tf = os.path.join(scratch, 'tasks%d.json' % i)
        rf = os.path.join(scratch, 'results%d.jsonl' % i)
        with open(tf, 'w') as f:
            json.dump(shard, f)
        p = subprocess.Popen([sys.executable, '-m', 'symx.conc_runner', tf, rf],
                             env=env, cwd=ROOT, stdout=subprocess.DEVNULL,
                             stderr=subprocess.PIPE, text=True)
        procs.append((p, rf))
    out = {}
    for p, rf in procs:
        _, err = p.communicate()
        if p.returncode != 0:
            log("conc_runner failed:", err[-2000:])
        if os.path.exists(rf):
            with open(rf) as f:
                for line in f:
                    if line.strip():
                        r = json.loads(line)
                        out[r['id']] = r
    return out


# ------------------------------------------------------------------- findings
def load_known():
    p = os.path.join(ROOT, 'known_findings.json')
    if not os.path.exists(p):
        return []
    return json.load(open(p))


def match_known(known, prop, key):
    for e in known:
        if e.get('property') == prop and e.get('status') == 'known' \
                and fnmatch.fnmatchcase(key, e['key']):
            return e
    return None


# ----------------------------------------------------------------------- main
def main(argv):
    prop = argv[1]
    tier = os.environ.get('VERIF_TIER') or 'quick'
    if '--tier' in argv:
        tier = argv[argv.index('--tier') + 1]
    if tier not in ('quick', 'thorough'):
        tier = 'quick'
    try:
        seed = int(os.environ.get('VERIF_SEED', '0'))
    except ValueError:
        seed = 0
    only = None
    if '--only' in argv:
        only = argv[argv.index('--only') + 1]
    t0 = time.time()
    scen_name = 'scen.%s' % prop.lower()
    sys.path.insert(0, ROOT)
    scratch = tempfile.mkdtemp(prefix='symx-%s-' % prop)
    try:
        rc = _main(prop, tier, seed, scen_name, scratch, t0, only)
    finally:
        shutil.rmtree(scratch, ignore_errors=True)
    return rc


def _main(prop, tier, seed, scen_name, scratch, t0, only):
    import z3
    from . import core, proxies   # noqa: F401  (warm before forking)
    mod = importlib.import_module(scen_name)
    if hasattr(mod, 'setup'):
        mod.setup('sym')
    jobs = mod.jobs(tier, seed)
    if only:
        jobs = [j for j in jobs if only in j['fn'] or only in json.dumps(j['cfg'])]
    for j in jobs:
        j.setdefault('cfg', {})
        j.setdefault('opts', {})
    # canaries first, the rest in a seeded random order: when a changed tree makes jobs slow and the global
    # budget cuts the run, every scenario family has had a share of the time
    order_rng = random.Random(seed * 104729 + 7)
    rest = [j for j in jobs if not j.get('canary')]
    order_rng.shuffle(rest)
    jobs = [j for j in jobs if j.get('canary')] + rest
    default_budget = getattr(mod, 'BUDGET', {}).get(tier, 120 if tier == 'quick' else 900)
    log("[%s] %d jobs, tier=%s seed=%d nproc=%d" % (prop, len(jobs), tier, seed, NPROC))
    gb = getattr(mod, 'GLOBAL_BUDGET', {}).get(tier, 420 if tier == 'quick' else 3000)
    for j in jobs:
        j['opts'].setdefault('obl_ms', 8000 if tier == 'quick' else 30000)
        j['opts'].setdefault('feas_ms', 1500 if tier == 'quick' else 3000)
    results = run_jobs(scen_name, jobs, scratch, default_budget, t0 + gb)
    t_sym = time.time() - t0
    if os.environ.get('VERIF_DEBUG'):
        for j, r in zip(jobs, results):
            log('  job %-14s wall=%6.1fs recs=%5d nq=%6d %s' % (j['fn'], r['wall'], len(r['recs']), sum(x.get('nq', 0) for x in r['recs']), json.dumps(j['cfg'])[:80]))

    rng = random.Random(seed * 7919 + 13)
    known = load_known()
    n_paths = n_trans = n_obl = n_dis = n_unknown = n_crash = n_abort = 0
    n_harness = n_vacuous = n_nontrivial = 0
    n_budget = 0
    n_wit_unrep = 0
    n_skipped = 0
    nq = 0
    tq = 0.0
    maxq = 0.0
    unknown_feas = 0
    funcs = set()
    stubs = {}
    harness_msgs = []
    viol = {}          # key -> list of (job idx, rec, obl)
    canary_hits = {}   # job idx -> list of (rec, obl)
    witnesses = []
    leaks = []
    samples = []
    notes = {}
    for ji, (job, res) in enumerate(zip(jobs, results)):
        is_canary = bool(job.get('canary'))
        for rec in res['recs']:
            if rec.get('kind') == 'skipped':
                n_skipped += 1
                continue
            if rec.get('kind') == 'crash':
                n_crash += 1
                harness_msgs.append("crash in job %d (%s): %s" % (
                    ji, job['fn'], str(rec.get('exc') or rec.get('status'))[:300]))
                continue
            n_paths += 1
            n_trans += 2 * rec.get('forks', 0)
            if rec['decisions'] > 0:
                n_nontrivial += 1
            nq += rec['nq']
            tq += rec['tq']
            maxq = max(maxq, rec['maxq'])
            unknown_feas += rec['unknown_feas']
            funcs.update(rec.get('funcs') or [])
            for k, v in (rec.get('stubs') or {}).items():
                stubs[k] = stubs.get(k, 0) + v
            for n in rec.get('notes') or []:
                notes[n] = notes.get(n, 0) + 1
            if rec['outcome'] == 'abort':
                n_abort += 1
                if 'budget-exhausted' in (rec.get('notes') or []):
                    n_budget += 1
            elif rec['outcome'] == 'leak':
                leaks.append((ji, rec))
            elif rec['outcome'] == 'harness-error':
                n_harness += 1
                harness_msgs.append("harness error in job %d (%s %s): %s" % (
                    ji, job['fn'], json.dumps(job['cfg'])[:120], str(rec.get('exc'))[:600]))
            for ob in rec['obls']:
                if os.environ.get('VERIF_DEBUG') and ob.get('t', 0) > 3:
                    log('   slow obligation %s %.1fs %s %s' % (ob['label'], ob['t'], ob['verdict'], json.dumps(job['cfg'])[:150]))
                canary_ob = ob['label'].startswith('canary')
                if canary_ob:
                    if ob['verdict'] == 'sat':
                        canary_hits.setdefault(ji, []).append((rec, ob))
                    continue
                n_obl += 1
                if ob['verdict'] == 'unsat':
                    n_dis += 1
                elif ob['verdict'] == 'vacuous':
                    n_vacuous += 1
                    if os.environ.get('VERIF_DEBUG'):
                        log('   vacuous obligation %s %s choices=%s' % (ob['label'], json.dumps(job['cfg'])[:100], rec.get('choices')))
                elif ob['verdict'] == 'unknown':
                    n_unknown += 1
                    harness_msgs.append("undecided obligation %s in job %d %s" % (
                        ob['label'], ji, json.dumps(job['cfg'])[:120]))
                elif ob['verdict'] == 'sat':
                    viol.setdefault(ob['key'], []).append((ji, rec, ob))
            if rec['outcome'] == 'ok' and rec.get('model') is not None and not is_canary:
                if rec['model'].get('_unrepresentable'):
                    n_wit_unrep += 1
                else:
                    witnesses.append((ji, rec))
            if len(samples) < 6 and rec['outcome'] == 'ok' and rec['obls'] and not is_canary \
                    and (rec['decisions'] > 0 or len(samples) < 2):
                samples.append({'job': job['fn'], 'cfg': job['cfg'],
                                'decisions': rec['decisions'], 'trail': rec.get('trail'),
                                'model': rec.get('model'),
                                'obligations': [[o['label'], o['verdict']] for o in rec['obls'][:8]],
                                'pc': rec.get('pc_text')})

    # ---- concrete phase: replays, canaries, witness validation
    tasks = []
    replay_index = {}
    for key, lst in viol.items():
        # prefer counterexamples whose model can be built in the requested input kinds
        good = [x for x in lst if not (x[2].get('model') or {}).get('_unrepresentable')]
        pool = good or lst
        # models chosen under the stubs' hints (values for which the stub's chosen outcome is the real one) first
        pool = [x for x in pool if (x[2].get('model') or {}).get('_hinted')] + \
               [x for x in pool if not (x[2].get('model') or {}).get('_hinted')]
        # up to 8 candidates spread over the occurrences (different jobs / flavours / paths): the key counts as
        # reproduced if any of them replays
        if len(pool) <= 8:
            picks = list(pool)
        else:
            step = (len(pool) - 1) / 7.0
            picks = pool[:3] + [pool[int(round(i * step))] for i in range(1, 8)]
        for (ji, rec, ob) in picks:
            tid = 'replay:%d' % len(tasks)
            tasks.append({'id': tid, 'scen': scen_name, 'fn': jobs[ji]['fn'],
                          'cfg': jobs[ji]['cfg'], 'model': ob.get('model'),
                          'choices': ob.get('choices') or rec.get('choices'),
                          'opts': jobs[ji].get('opts')})
            replay_index[tid] = (key, ji, rec, ob)
    canary_tasks = {}
    for ji, lst in canary_hits.items():
        rec, ob = lst[0]
        tid = 'canary:%d' % ji
        tasks.append({'id': tid, 'scen': scen_name, 'fn': jobs[ji]['fn'],
                      'cfg': jobs[ji]['cfg'], 'model': ob.get('model'),
                      'choices': ob.get('choices') or rec.get('choices'),
                      'opts': jobs[ji].get('opts')})
        canary_tasks[tid] = (ji, ob)
    leak_index = {}
    for li, (ji, rec) in enumerate(leaks[:40]):
        for mi, model in enumerate((rec.get('leak') or {}).get('models') or []):
            tid = 'leak:%d:%d' % (li, mi)
            tasks.append({'id': tid, 'scen': scen_name, 'fn': jobs[ji]['fn'], 'cfg': jobs[ji]['cfg'], 'model': model,
                          'choices': (rec.get('leak') or {}).get('choices') or rec.get('choices'),
                          'opts': jobs[ji].get('opts')})
            leak_index[tid] = (li, ji, rec, model)
    frac = getattr(mod, 'WITNESS_FRACTION', {}).get(tier, 0.1 if tier == 'quick' else 0.5)
    cap = getattr(mod, 'WITNESS_CAP', {}).get(tier, 400 if tier == 'quick' else 4000)
    if witnesses:
        k = min(len(witnesses), cap, max(min(len(witnesses), 20), int(len(witnesses) * frac)))
        wsel = rng.sample(witnesses, k)
    else:
        wsel = []
    wit_index = {}
    for (ji, rec) in wsel:
        tid = 'wit:%d' % len(tasks)
        tasks.append({'id': tid, 'scen': scen_name, 'fn': jobs[ji]['fn'],
                      'cfg': jobs[ji]['cfg'], 'model': rec['model'],
                      'choices': rec.get('choices'), 'opts': jobs[ji].get('opts')})
        wit_index[tid] = (ji, rec)
    t1 = time.time()
    cres = run_concrete(tasks, scratch)
    t_conc = time.time() - t1

    # witnesses
    n_valid = n_wit_skipped = n_wit_diverged = 0

    def compare(ji, rec, r):
        """-> 'skip' | 'diverged' | None (agree) | str (problem)"""
        if r is None or r['status'] == 'error':
            return "witness run failed: %s" % ((r or {}).get('exc', 'no result')[:600])
        if r['status'] == 'unrepresentable':
            return 'skip'
        nondet = any(s in (rec.get('stubs') or {}) for s in ('Decimal(fraction)', 'math.log10'))
        sym_keys = [o['key'] for o in rec['obls']]
        con_keys = [o['key'] for o in r['obls']]
        sym_sat = {o['key'] for o in rec['obls'] if o['verdict'] == 'sat'}
        problems = []
        if r['status'] != 'ok':
            problems.append("concrete status %s (%s)" % (r['status'], r.get('exc')))
        if sym_keys != con_keys:
            problems.append("obligation sequence differs: sym=%s conc=%s" % (sym_keys[:12], con_keys[:12]))
        else:
            for o in r['obls']:
                if not o['ok'] and o['key'] not in sym_sat:
                    problems.append("concrete check %s fails but was proved" % o['key'])
        if rec.get('obs') is not None and not problems:
            if rec['obs'] != r['obs']:
                for a, b in zip(rec['obs'], r['obs']):
                    if a != b and '?' not in json.dumps(a):
                        problems.append("observation differs: sym=%s conc=%s" % (a, b))
                        break
                if len(rec['obs']) != len(r['obs']):
                    problems.append("observation count differs")
        cfail = [o for o in r.get('obls', []) if not o['ok'] and o['key'] not in sym_sat
                 and not o['label'].startswith('canary')]
        if cfail:
            return ('concrete-failure', cfail)
        if problems:
            return 'diverged' if nondet else '; '.join(problems)[:800]
        return None

    pending = []
    wit_violations = []
    for tid, (ji, rec) in wit_index.items():
        v = compare(ji, rec, cres.get(tid))
        if v == 'skip':
            n_wit_skipped += 1
        elif v == 'diverged':
            n_wit_diverged += 1
        elif v is None:
            n_valid += 1
        else:
            pending.append((tid, ji, rec, v))
    if pending:
        # the C decimalfp build corrupts memory on some quotients (DESIGN section 9): a
        # disagreement is re-examined on the pure-Python build before it counts
        sub = os.path.join(scratch, 'recheck')
        os.makedirs(sub, exist_ok=True)
        by_id = {t['id']: t for t in tasks}
        r2 = _run_concrete([by_id[tid] for tid, _, _, _ in pending], sub, True)
        for tid, ji, rec, v in pending:
            v2 = compare(ji, rec, r2.get(tid))
            if isinstance(v2, tuple) and isinstance(v, tuple):
                # an obligation fails on the real code for this witness on both builds: a counter-
                # example found by witness validation (the symbolic phase proved it, so a proxy or
                # stub is also wrong for this code, but the concrete failure stands on its own)
                for o in v2[1][:3]:
                    wit_violations.append((o['key'], ji, rec, o))
                continue
            if isinstance(v, tuple):
                v = 'concrete check %s fails on the C build only' % v[1][0]['key']
            if isinstance(v2, tuple):
                v2 = 'concrete check fails on the python build only'
            if v2 is None:
                CRASH_STATS['c_dependency_divergences'] = CRASH_STATS.get('c_dependency_divergences', 0) + 1
                n_valid += 1
                continue
            n_harness += 1
            harness_msgs.append("WITNESS MISMATCH job=%s cfg=%s choices=%s model=%s: %s" % (
                jobs[ji]['fn'], json.dumps(jobs[ji]['cfg'])[:200], rec.get('choices'),
                rec['model'], v))

    # canaries
    canary_jobs = [ji for ji, j in enumerate(jobs) if j.get('canary')]
    canary_alive = 0
    for ji in canary_jobs:
        tid = 'canary:%d' % ji
        r = cres.get(tid)
        if tid not in canary_tasks:
            harness_msgs.append("DEAD CANARY (no counterexample) job=%s cfg=%s" % (
                jobs[ji]['fn'], json.dumps(jobs[ji]['cfg'])[:200]))
            n_harness += 1
            continue
        key = canary_tasks[tid][1]['key']
        if r and r['status'] == 'ok' and any((not o['ok']) and o['key'] == key for o in r['obls']):
            canary_alive += 1
        else:
            harness_msgs.append("CANARY does not replay job=%s: %s" % (
                jobs[ji]['fn'], json.dumps(r)[:500]))
            n_harness += 1

    # replays
    violations = []      # reproduced, unlisted
    known_hits = {}
    n_nonrepro = 0
    by_key = {}
    for tid, (key, ji, rec, ob) in replay_index.items():
        r = cres.get(tid)
        ok = bool(r and r['status'] == 'ok' and
                  any((not o['ok']) and o['key'] == key for o in r['obls']))
        by_key.setdefault(key, []).append((ok, tid, ji, rec, ob, r))
    repdir = os.environ.get('SYMX_REPLAY_DIR') or os.path.join(ROOT, 'replays')
    os.makedirs(repdir, exist_ok=True)
    # counterexamples that did not reproduce on the C build: once more on the Python build
    retry = [x for key, lst in by_key.items() if not any(y[0] for y in lst) for x in lst]
    if retry:
        sub = os.path.join(scratch, 'replay-recheck')
        os.makedirs(sub, exist_ok=True)
        by_id = {t['id']: t for t in tasks}
        r2 = _run_concrete([by_id[x[1]] for x in retry], sub, True)
        for key, lst in by_key.items():
            for i, x in enumerate(lst):
                rr = r2.get(x[1])
                if rr and rr['status'] == 'ok' and any((not o['ok']) and o['key'] == key for o in rr['obls']):
                    rr['via_python_impl'] = True
                    lst[i] = (True, x[1], x[2], x[3], x[4], rr)
    for key, lst in by_key.items():
        good = [x for x in lst if x[0]]
        if not good:
            n_nonrepro += 1
            n_harness += 1
            x = lst[0]
            harness_msgs.append("NON-REPRODUCING counterexample key=%s job=%s cfg=%s model=%s conc=%s" % (
                key, jobs[x[2]]['fn'], json.dumps(jobs[x[2]]['cfg'])[:200],
                x[4].get('model'), json.dumps(x[5])[:600]))
            continue
        ok, tid, ji, rec, ob, r = good[0]
        e = match_known(known, prop, key)
        if e is not None:
            known_hits.setdefault(e['key'], [e, 0, key])
            known_hits[e['key']][1] += len(viol[key])
            continue
        task = {'property': prop, 'key': key, 'label': ob['label'], 'scen': scen_name,
                'fn': jobs[ji]['fn'], 'cfg': jobs[ji]['cfg'], 'model': ob.get('model'),
                'choices': ob.get('choices') or rec.get('choices'),
                'opts': jobs[ji].get('opts'), 'info': ob.get('info'),
                'concrete_failed': [o for o in r['obls'] if not o['ok']][:5],
                'occurrences': len(viol[key])}
        h = hashlib.sha1(json.dumps([key, task['fn'], task['cfg'], task['model']],
                                    sort_keys=True).encode()).hexdigest()[:10]
        path = os.path.join(repdir, '%s-%s.json' % (prop, h))
        with open(path, 'w') as f:
            json.dump(task, f, indent=1, default=str)
        violations.append((key, path))

    # concretisation leaks: concrete probing of the leaking paths
    leak_resolved = set()
    for tid, (li, ji, rec, model) in leak_index.items():
        r = cres.get(tid)
        if r and r.get('status') == 'ok':
            for o in r['obls']:
                if not o['ok'] and not o['label'].startswith('canary'):
                    rec2 = dict(rec, model=model)
                    o = dict(o, info=[o.get('info'), 'found by concrete probing after the library converted a symbolic '
                                      'amount: ' + ((rec.get('leak') or {}).get('what') or '')])
                    wit_violations.append((o['key'], ji, rec2, o))
                    leak_resolved.add(li)
                    break
    for li, (ji, rec) in enumerate(leaks):
        if li not in leak_resolved:
            n_harness += 1
            harness_msgs.append("CONCRETISATION LEAK (library code needs the concrete value of a symbolic number; %d "
                                "concrete probes found no failing obligation) job=%s cfg=%s: %s" % (
                                    len((rec.get('leak') or {}).get('models') or []), jobs[ji]['fn'],
                                    json.dumps(jobs[ji]['cfg'])[:150], str(rec.get('exc'))[:400]))
    seen_keys = {k for k, _ in violations}
    for key, ji, rec, o in wit_violations:
        if key in seen_keys:
            continue
        seen_keys.add(key)
        e = match_known(known, prop, key)
        if e is not None:
            known_hits.setdefault(e['key'], [e, 0, key])
            known_hits[e['key']][1] += 1
            continue
        task = {'property': prop, 'key': key, 'label': o['label'], 'scen': scen_name, 'fn': jobs[ji]['fn'],
                'cfg': jobs[ji]['cfg'], 'model': rec.get('model'), 'choices': rec.get('choices'),
                'opts': jobs[ji].get('opts'), 'info': o.get('info'),
                'found_by': 'witness validation (concrete run of a path witness on the real build)'}
        h = hashlib.sha1(json.dumps([key, task['fn'], task['cfg'], task['model']], sort_keys=True).encode()).hexdigest()[:10]
        path = os.path.join(repdir, '%s-%s.json' % (prop, h))
        with open(path, 'w') as f:
            json.dump(task, f, indent=1, default=str)
        violations.append((key, path))
    inconclusive = bool(n_unknown or n_crash or n_harness or n_budget or n_skipped)
    if n_skipped:
        harness_msgs.append('%d jobs skipped: global time budget exhausted' % n_skipped)
    if n_paths == 0 or (n_obl == 0):
        inconclusive = True
        harness_msgs.append("no obligations reached")

    wall = time.time() - t0
    meta = getattr(mod, 'META', {})
    cfgs = getattr(mod, 'LAST_CONFIG_INFO', None) or {}
    evidence = {
        'property_id': prop, 'tier': tier, 'seed': seed, 'level': 'model_checking',
        'coverage': {
            'states': max(n_paths, 0), 'transitions': n_trans,
            'traces_validated_against_impl': n_valid,
            'samples': samples or [{'note': 'no path with obligations'}],
            'evaluations': n_paths, 'distinct_nontrivial': n_nontrivial,
            'rule': 'one evaluation = one explored path of the real code (distinct path '
                    'condition); non-trivial = at least one data-dependent branch was '
                    'split by the solver',
            'obligations': n_obl, 'discharged': n_dis, 'undecided': n_unknown, 'vacuous_on_infeasible_path': n_vacuous,
            'violated_obligations': sum(len(v) for v in viol.values()),
            'jobs': len(jobs), 'configurations': cfgs,
            'functions_encoded': sorted(funcs),
            'bounds': meta.get('bounds', []), 'outside_bounds': meta.get('outside_bounds', []),
            'stubs': meta.get('stubs', []), 'stub_calls': stubs,
            'solver': {'name': 'z3', 'version': z3.get_version_string(), 'queries': nq,
                       'total_query_s': round(tq, 3), 'max_query_s': round(maxq, 3),
                       'feasibility_unknown_explored_both': unknown_feas},
            'paths_aborted': n_abort, 'path_notes': notes, 'jobs_skipped_global_budget': n_skipped,
            'witnesses_skipped_unrepresentable': n_wit_skipped + n_wit_unrep,
            'witnesses_diverged_on_nondeterministic_stub': n_wit_diverged,
            'canary': {'jobs': len(canary_jobs), 'alive': canary_alive},
            'known_findings_hit': [{'key': k, 'occurrences': v[1], 'matched': v[2]}
                                   for k, v in known_hits.items()],
            'non_reproducing_counterexamples': n_nonrepro,
            'concrete_runs_crashed_in_c_decimalfp_rerun_on_python_impl': CRASH_STATS['c_dependency_crashes'],
            'witnesses_wrong_on_c_decimalfp_but_right_on_python_impl': CRASH_STATS.get('c_dependency_divergences', 0),
            'symbolic_phase_s': round(t_sym, 2), 'concrete_phase_s': round(t_conc, 2),
            'exhaustive': bool(cfgs.get('exhaustive', False)),
            'harness_messages': harness_msgs[:20],
        },
        'assumptions': meta.get('assumptions', []),
        'wall_s': round(wall, 2),
        'violations': len(violations),
    }
    evdir = os.environ.get('SYMX_EVIDENCE_DIR') or os.path.join(ROOT, 'evidence')
    os.makedirs(evdir, exist_ok=True)
    with open(os.path.join(evdir, '%s.json' % prop), 'w') as f:
        json.dump(evidence, f, indent=1, default=str)

    for k, v in known_hits.items():
        print("KNOWN-FINDING: property=%s %s [%s; %d occurrences]" % (prop, v[0]['what'], k, v[1]))
    for key, path in violations:
        print("VIOLATION property=%s replay=%s key=%s" % (prop, path, key))
    print("[%s] tier=%s paths=%d decisions=%d obligations=%d discharged=%d undecided=%d "
          "violating-keys=%d known=%d witnesses-validated=%d canaries=%d/%d queries=%d "
          "solver=%.1fs wall=%.1fs" % (
              prop, tier, n_paths, n_trans, n_obl, n_dis, n_unknown, len(violations),
              len(known_hits), n_valid, canary_alive, len(canary_jobs), nq, tq, wall))
    sys.stdout.flush()
    if violations:
        return 1
    if inconclusive:
        for m in harness_msgs[:8]:
            print("HARNESS: " + m[:700])
        print("INCONCLUSIVE property=%s (undecided=%d crashes=%d harness=%d budget=%d)" % (
            prop, n_unknown, n_crash, n_harness, n_budget))
        return 2
    return 0


def replay_main(argv):
    """bin/replay <file>: re-run one stored counterexample on the default build"""
    path = argv[1]
    task = json.load(open(path))
    task['id'] = 'replay:0'
    scratch = tempfile.mkdtemp(prefix='symx-replay-')
    try:
        res = run_concrete([task], scratch)
    finally:
        shutil.rmtree(scratch, ignore_errors=True)
    r = res.get('replay:0')
    print(json.dumps(r, indent=1))
    if r and r['status'] == 'ok' and any((not o['ok']) and o['key'] == task['key']
                                          for o in r['obls']):
        print("REPRODUCED property=%s key=%s" % (task['property'], task['key']))
        return 1
    print("not reproduced")
    return 0


if __name__ == '__main__':
    sys.exit(main(sys.argv))
