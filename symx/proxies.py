"""Proxy numbers carrying z3 terms, and the dependency stubs (DESIGN 2.2, 3.1).

Must be imported with DECIMALFP_FORCE_PYTHON_IMPL=1 (the C Decimal type cannot be
subclassed).  `install(engine)` binds the proxies to the engine of this process
and patches the *dependency* (decimalfp's Python Decimal, fractions.Fraction,
math.log10); nothing under /repo/src/quantity is touched.
"""
from __future__ import annotations

import fractions
import math
import numbers
import os
from fractions import Fraction

import z3

assert os.environ.get('DECIMALFP_FORCE_PYTHON_IMPL'), \
    "symbolic phase needs DECIMALFP_FORCE_PYTHON_IMPL=1"

import decimalfp                      # noqa: E402
from decimalfp import Decimal, ROUNDING, get_dflt_rounding_mode   # noqa: E402

from .core import ConcretisationLeak, HarnessError, PathAbort, q_val   # noqa: E402

from decimalfp import _pydecimalfp as _pydec       # noqa: E402
assert _pydec.Decimal is Decimal, 'pure-Python decimalfp expected'

E = None        # engine of this process


def _leak(name):
    def f(self, *a, **k):
        raise ConcretisationLeak("%s.%s read on a symbolic value"
                                 % (type(self).__name__, name))
    return f


def _leak_prop(name):
    return property(_leak(name))


# ------------------------------------------------------------------- SymBool
class SymBool:
    __slots__ = ('z',)

    def __init__(self, z):
        self.z = z

    def __bool__(self):
        return E.branch(self.z)

    def __repr__(self):
        return "SymBool(%s)" % (self.z,)

    # eq / hash on SymBool must never be used silently
    __hash__ = None


def _sb(z):
    z = z3.simplify(z)
    if z3.is_true(z):
        return True
    if z3.is_false(z):
        return False
    return SymBool(z)


# ------------------------------------------------------------ value lifting
def is_proxy(x):
    return isinstance(x, (SymRat, SymInt))


def _lift(x):
    """-> (z3 Real term, flavour, is_sym) or None.  flavour in int/dec/frac"""
    if isinstance(x, SymRat):
        return x.z, x.flav, True
    if isinstance(x, SymInt):
        return z3.ToReal(x.z), 'int', True
    if isinstance(x, bool):
        return q_val(int(x)), 'int', False
    if isinstance(x, int):
        return q_val(x), 'int', False
    if isinstance(x, Decimal):
        return q_val(Fraction(x.numerator, x.denominator)), 'dec', False
    if isinstance(x, Fraction):
        return q_val(x), 'frac', False
    if isinstance(x, float) and x == x and x not in (float('inf'), float('-inf')):
        # a float operand enters arithmetic with its exact binary value (decimalfp converts it exactly;
        # with a Fraction the result is a float again, see SymRat._bin)
        return q_val(Fraction(x)), 'float', False
    return None


def _lift_z(z):
    """z3 Int / Real term -> Real term"""
    return z3.ToReal(z) if z.sort() == z3.IntSort() else z


def _mk(z, flav):
    """Build the result proxy; numerals collapse to concrete numbers."""
    z = z3.simplify(z)
    if z3.is_rational_value(z):
        v = Fraction(z.numerator_as_long(), z.denominator_as_long())
        if flav == 'frac':
            return v
        try:
            return Decimal(v)
        except ValueError:
            return v
    if flav == 'frac':
        return SymFrac(z)
    return SymDec(z)


def _res_flav(fa, fb, op):
    if op == 'div':
        # Decimal / Decimal may be a Decimal in reality; modelled as fraction
        # unless both are decimal-like, where the library never dispatches on it
        return 'frac' if 'frac' in (fa, fb) else 'dec'
    if 'frac' in (fa, fb):
        return 'frac'
    return 'dec'


def _repr_fork(res, fa, fb):
    """Option `repr_fork` (selected jobs): the kind of a result that involves a decimalfp.Decimal operand follows the
    dependency: Decimal when the exact value is a finite decimal, Fraction otherwise -- decided per distinct term by a
    path split (representable: no constraint, an over-approximation; not representable: not a decimal with up to 9
    fractional digits, plus a hint for a factor 3 in the denominator).  Fraction with Fraction stays a Fraction."""
    if not isinstance(res, (SymDec, SymFrac)):
        return res
    if fa == 'frac' and fb == 'frac':
        return res if isinstance(res, SymFrac) else SymFrac(res.z)
    memo = E.__dict__.setdefault('_repr_memo', {})
    key = z3.simplify(res.z).sexpr()
    dec = memo.get(key)
    if dec is None:
        E.stub('representation of a mixed Decimal / Fraction result')
        dec = bool(E.branch(E.fresh_bool('decimal_repr')))
        memo[key] = dec
        if not dec:
            E._add(z3.Not(z3.IsInt(res.z * (10 ** 9))))
            if len([1 for v in memo.values() if not v]) <= 2:
                E.hint(z3.And(z3.IsInt(res.z * 3000), z3.Not(z3.IsInt(res.z * 1000))))
    return SymDec(res.z) if dec else SymFrac(res.z)


def _flav_hint(res, fa, fb, osym, op='mul'):
    """A decimal-flavoured symbolic value times / over a concrete Fraction is modelled as a Fraction; in reality it is one
    only when the value is no finite decimal.  Leave a hint for the choice of counterexample models (first occurrence on
    a path): a value with a factor 3 in its denominator."""
    if E.opts.get('repr_fork'):
        if fa == 'dec' and fb == 'dec' and op != 'div':
            return res
        return _repr_fork(res, fa, fb)
    if isinstance(res, SymFrac) and not osym and 'dec' in (fa, fb) and not getattr(E, '_flav_hinted', False):
        E._flav_hinted = True
        E.hint(z3.And(z3.IsInt(res.z * 3000), z3.Not(z3.IsInt(res.z * 1000))), cex_only=True)
    return res


def _nonlinear_const(z):
    """If the path condition forces z to a constant, return that numeral."""
    if z3.is_rational_value(z) or z3.is_int_value(z):
        return z
    return E.forced_const(z)


class SymRat:
    """Mixin of SymDec / SymFrac."""
    __slots__ = ()

    # --- arithmetic
    def _bin(self, other, op, swap=False):
        lo = _lift(other)
        if lo is None:
            return NotImplemented
        oz, of, osym = lo
        a, b = (oz, self.z) if swap else (self.z, oz)
        fa, fb = (of, self.flav) if swap else (self.flav, of)
        if of == 'float':
            if self.flav == 'frac':
                # Fraction (op) float is a float in Python: outside the exact fragment
                zz = {'add': a + b, 'sub': a - b, 'mul': a * b}.get(op)
                if zz is None:
                    if E.branch(b == 0):
                        raise ZeroDivisionError('float division by zero (symbolic)')
                    zz = a / b
                return E.concretise_float(zz)
            fa, fb = ('dec', self.flav) if swap else (self.flav, 'dec')
        if op == 'add':
            r = _mk(a + b, _res_flav(fa, fb, op))
            return _repr_fork(r, fa, fb) if E.opts.get('repr_fork') and 'frac' in (fa, fb) else r
        if op == 'sub':
            r = _mk(a - b, _res_flav(fa, fb, op))
            return _repr_fork(r, fa, fb) if E.opts.get('repr_fork') and 'frac' in (fa, fb) else r
        if op == 'mul':
            if osym:
                a, b = E.linearise(a, b)
            return _flav_hint(_mk(a * b, _res_flav(fa, fb, op)), fa, fb, osym, op)
        if op == 'div':
            if E.branch(b == 0):
                raise ZeroDivisionError("division by zero (symbolic)")
            if not (z3.is_rational_value(z3.simplify(b))):
                a, b = E.linearise(a, b)
            return _flav_hint(_mk(a / b, _res_flav(fa, fb, op)), fa, fb, osym, op)
        raise HarnessError(op)

    def __add__(self, o): return self._bin(o, 'add')
    def __radd__(self, o): return self._bin(o, 'add', True)
    def __sub__(self, o): return self._bin(o, 'sub')
    def __rsub__(self, o): return self._bin(o, 'sub', True)
    def __mul__(self, o): return self._bin(o, 'mul')
    def __rmul__(self, o): return self._bin(o, 'mul', True)
    def __truediv__(self, o): return self._bin(o, 'div')
    def __rtruediv__(self, o): return self._bin(o, 'div', True)

    def __neg__(self): return _mk(-self.z, self.flav)
    def __pos__(self): return self
    def __abs__(self):
        # split on the sign instead of an if-then-else term (keeps rounding queries linear)
        if E.branch(self.z >= 0):
            return self
        return _mk(-self.z, self.flav)

    def __pow__(self, n):
        if isinstance(n, SymInt):
            n = E.concretise(n)
        if isinstance(n, bool) or not isinstance(n, int):
            if isinstance(n, (Decimal, Fraction)) and n.denominator == 1:
                n = int(n.numerator)
            else:
                raise HarnessError("symbolic ** %r" % (n,))
        if n == 0:
            return Decimal(1) if self.flav == 'dec' else Fraction(1)
        if n > 0:
            z = self.z
            for _ in range(n - 1):
                z = z * self.z
            return _mk(z, self.flav)
        if E.branch(self.z == 0):
            raise ZeroDivisionError("0 ** negative (symbolic)")
        z = self.z
        for _ in range(-n - 1):
            z = z * self.z
        return _mk(1 / z, 'frac' if self.flav == 'frac' else 'dec')

    def __rpow__(self, base):
        raise HarnessError("number ** symbolic rational")

    # --- comparisons
    def _cmp(self, other, op):
        lo = _lift(other)
        if lo is None:
            return NotImplemented
        oz = lo[0]
        a = self.z
        if op == 'eq': return _sb(a == oz)
        if op == 'ne': return _sb(a != oz)
        if op == 'lt': return _sb(a < oz)
        if op == 'le': return _sb(a <= oz)
        if op == 'gt': return _sb(a > oz)
        if op == 'ge': return _sb(a >= oz)

    def __eq__(self, o): return self._cmp(o, 'eq')
    def __ne__(self, o): return self._cmp(o, 'ne')
    def __lt__(self, o): return self._cmp(o, 'lt')
    def __le__(self, o): return self._cmp(o, 'le')
    def __gt__(self, o): return self._cmp(o, 'gt')
    def __ge__(self, o): return self._cmp(o, 'ge')

    def __bool__(self):
        return E.branch(self.z != 0)

    def __hash__(self):
        E.hash_log.append(self.z)
        if not E.hash_recording:
            E.loose_hash(self.z)
        return 0

    # --- integer views
    def __floor__(self):
        m = E.fresh('int', 'floor')
        E._add(z3.And(z3.ToReal(m) <= self.z, self.z < z3.ToReal(m) + 1))
        return SymInt(m)

    def __ceil__(self):
        m = E.fresh('int', 'ceil')
        E._add(z3.And(z3.ToReal(m) - 1 < self.z, self.z <= z3.ToReal(m)))
        return SymInt(m)

    def __trunc__(self):
        m = E.fresh('int', 'trunc')
        E._add(round_spec(ROUNDING.ROUND_DOWN, m, self.z))
        return SymInt(m)

    def is_integer(self):
        return _sb(z3.IsInt(self.z))

    @property
    def real(self): return self

    @property
    def imag(self): return 0

    def __repr__(self):
        return "%s(%s)" % (type(self).__name__, z3.simplify(self.z))

    # text: marker token (DESIGN 3.4)
    def __str__(self):
        return E.marker_for(self)

    def __format__(self, spec):
        if spec:
            raise HarnessError("format spec on a symbolic amount")
        return E.marker_for(self)

    # everything else that would read the dummy payload traps
    __int__ = _leak('__int__')
    def __float__(self):
        """float() of a symbolic number: outside the exact fragment.  The path is *concretised* at this
        value (DART-style): the engine picks a value -- close to, but different from, a value that was
        converted before on this path, so that float rounding can matter -- pins the term to it and returns
        the real float.  Obligations on this path then speak about that single point only (counted)."""
        return E.concretise_float(self.z)

    __index__ = _leak('__index__')
    __bytes__ = _leak('__bytes__')
    __reduce__ = _leak('__reduce__')
    __reduce_ex__ = _leak('__reduce_ex__')
    __copy__ = lambda self: self            # noqa: E731
    __deepcopy__ = lambda self, memo: self  # noqa: E731
    # floor division and remainder: q = floor(x / y) as a fresh integer (Python: int for Decimal / Fraction
    # operands), r = x - q*y with the flavour of a difference
    def _divmod(self, other, swap=False):
        quo = self._bin(other, 'div', swap)
        if quo is NotImplemented:
            return NotImplemented
        if not isinstance(quo, SymRat):
            raise ConcretisationLeak('floor division leading to a float')
        q = quo.__floor__()
        x, y = (other, self) if swap else (self, other)
        return q, x - q * y

    def __divmod__(self, o): return self._divmod(o)
    def __rdivmod__(self, o): return self._divmod(o, True)

    def __floordiv__(self, o):
        r = self._divmod(o)
        return r if r is NotImplemented else r[0]

    def __rfloordiv__(self, o):
        r = self._divmod(o, True)
        return r if r is NotImplemented else r[0]

    def __mod__(self, o):
        r = self._divmod(o)
        return r if r is NotImplemented else r[1]

    def __rmod__(self, o):
        r = self._divmod(o, True)
        return r if r is NotImplemented else r[1]
    as_integer_ratio = _leak('as_integer_ratio')
    limit_denominator = _leak('limit_denominator')
    as_tuple = _leak('as_tuple')
    as_fraction = _leak('as_fraction')
    conjugate = _leak('conjugate')

    # numerator / denominator with a symbolic meaning (superset of the reduced pairs); the non-linear
    # link n == x * d is only added when the numerator is actually asked for
    def _den(self):
        try:
            return self._nd[1]
        except AttributeError:
            pass
        lf = _linear_over_grid(self.z)
        if lf is not None:
            # value is (alpha*N + beta) with N the declared integer grid variable: a concrete common
            # denominator and a linear integer numerator (a non-reduced pair; see C13 for the scale lemma)
            object.__setattr__(self, '_nd', lf)
            return lf[1]
        d = E.fresh('int', 'den')
        E._add(z3.And(d >= 1, (d == 1) == z3.IsInt(self.z)))
        object.__setattr__(self, '_nd', (None, SymInt(d)))
        return self._nd[1]

    def _num_den(self):
        d = self._den()
        if self._nd[0] is None:
            n = E.fresh('int', 'num')
            E._add(z3.ToReal(n) == self.z * z3.ToReal(d.z))
            object.__setattr__(self, '_nd', (SymInt(n), d))
        return self._nd

    @property
    def numerator(self): return self._num_den()[0]

    @property
    def denominator(self): return self._den()


def _linear_over_grid(z):
    """(SymInt numerator, int denominator) when z == alpha*N + beta for the single declared grid variable N
    (Engine.rational_over) and rational constants alpha, beta; else None"""
    gv = getattr(E, 'grid_vars', None)
    if not gv or len(gv) != 1:
        return None
    N = gv[0]
    vals = []
    for k in (0, 1, 2):
        v = z3.simplify(z3.substitute(z, (N, z3.IntVal(k))))
        if not z3.is_rational_value(v):
            return None
        vals.append(Fraction(v.numerator_as_long(), v.denominator_as_long()))
    beta, alpha = vals[0], vals[1] - vals[0]
    if vals[2] - vals[1] != alpha:
        return None
    import math
    q = alpha.denominator * beta.denominator // math.gcd(alpha.denominator, beta.denominator)
    num = SymInt._mk(int(alpha * q) * N + int(beta * q))
    return (num if isinstance(num, SymInt) else SymInt(z3.IntVal(num)), q)


class SymDec(SymRat, Decimal):
    __slots__ = ('z', '_nd')
    flav = 'dec'

    def __new__(cls, z):
        self = object.__new__(cls)
        self.z = z
        return self

    _value = _leak_prop('_value')
    _precision = _leak_prop('_precision')
    _numerator = _leak_prop('_numerator')
    _denominator = _leak_prop('_denominator')

    @property
    def precision(self):
        # p >= 0, p == 0 <=> value is an integer
        p = E.fresh('int', 'prec')
        E._add(z3.And(p >= 0, (p == 0) == z3.IsInt(self.z)))
        return SymInt(p)

    @property
    def magnitude(self):
        if E.branch(self.z == 0):
            raise OverflowError("Result would be '-Infinity'.")
        return E.magnitude(self.z)

    def adjusted(self, precision=None, rounding=None):
        if precision is None:
            return self
        if isinstance(precision, SymInt):
            precision = E.concretise(precision)
        if not isinstance(precision, int):
            raise TypeError("Precision must be of type 'int'.")
        return _round_to_prec(self.z, precision, rounding)

    def quantize(self, quant, rounding=None):
        lo = _lift(quant)
        if lo is None:
            raise TypeError("Can't quantize to %r" % (quant,))
        qz, qf, _ = lo
        E.stub('Decimal.quantize')
        m = E.fresh('int', 'qz')
        mode = rounding if rounding is not None else get_dflt_rounding_mode()
        a, b = E.linearise(self.z, qz)
        E._add(round_spec(mode, m, a / b))
        E.round_log.append((m, a / b, mode))
        return _mk(z3.ToReal(m) * b, 'frac' if qf == 'frac' else 'dec')

    def __round__(self, ndigits=None):
        if ndigits is None:
            r = _round_to_prec(self.z, 0, None)
            return SymInt(z3.ToInt(r.z)) if isinstance(r, SymRat) else int(r)
        if isinstance(ndigits, SymInt):
            ndigits = E.concretise(ndigits)
        return _round_to_prec(self.z, ndigits, None)


class SymFrac(SymRat, Fraction):
    __slots__ = ('z', '_nd')
    flav = 'frac'

    def __new__(cls, z):
        self = object.__new__(cls)
        self.z = z
        return self

    _numerator = _leak_prop('_numerator')
    _denominator = _leak_prop('_denominator')

    def __round__(self, ndigits=None):
        # fractions.Fraction.__round__: always half-even
        if ndigits is None:
            m = E.fresh('int', 'rnd')
            E._add(round_spec(ROUNDING.ROUND_HALF_EVEN, m, self.z))
            return SymInt(m)
        if isinstance(ndigits, SymInt):
            ndigits = E.concretise(ndigits)
        E.stub('Fraction.__round__')
        m = E.fresh('int', 'rnd')
        sh = Fraction(10) ** ndigits
        y = self.z * q_val(sh)
        E._add(round_spec(ROUNDING.ROUND_HALF_EVEN, m, y))
        E.round_log.append((m, y, ROUNDING.ROUND_HALF_EVEN))
        return _mk(z3.ToReal(m) / q_val(sh), 'frac')


def _round_to_prec(z, prec, rounding):
    """value z rounded to `prec` fractional digits (prec may be negative)."""
    E.stub('Decimal(x, prec)')
    mode = rounding if rounding is not None else get_dflt_rounding_mode()
    sh = Fraction(10) ** prec
    m = E.fresh('int', 'rnd')
    y = z * q_val(sh)
    E._add(round_spec(mode, m, y))
    E.round_log.append((m, y, mode))
    return _mk(z3.ToReal(m) / q_val(sh), 'dec')


def round_spec(mode, m, y, pure=False):
    """Textbook definition: integer m is y rounded under `mode` (z3 Bool).
    pure=True: no fresh variables (usable inside an obligation, which is negated)."""
    mr = z3.ToReal(m)
    d = y - mr                      # d > 0: rounded down, d < 0: rounded up
    half = z3.Q(1, 2)
    R = ROUNDING
    if mode == R.ROUND_FLOOR:
        return z3.And(mr <= y, y < mr + 1)
    if mode == R.ROUND_CEILING:
        return z3.And(mr - 1 < y, y <= mr)
    if mode == R.ROUND_DOWN:
        return z3.If(y >= 0, z3.And(mr <= y, y < mr + 1),
                     z3.And(mr - 1 < y, y <= mr))
    if mode == R.ROUND_UP:
        return z3.If(y >= 0, z3.And(mr - 1 < y, y <= mr),
                     z3.And(mr <= y, y < mr + 1))
    if mode == R.ROUND_HALF_UP:
        return z3.And(-half <= d, d <= half,
                      z3.Implies(d == half, y < 0), z3.Implies(d == -half, y > 0))
    if mode == R.ROUND_HALF_DOWN:
        return z3.And(-half <= d, d <= half,
                      z3.Implies(d == half, y > 0), z3.Implies(d == -half, y < 0))
    if mode == R.ROUND_HALF_EVEN:
        return z3.And(-half <= d, d <= half,
                      z3.Implies(z3.Or(d == half, d == -half), m % 2 == 0))
    if mode == R.ROUND_05UP:
        if pure:
            # trunc(y) expressed through m itself: m in {t, t +- 1}
            fl = z3.ToInt(y)                      # floor
            t = z3.If(z3.Or(y >= 0, z3.ToReal(fl) == y), fl, fl + 1)
        else:
            t = E.fresh('int', 'trunc')
        tr = z3.ToReal(t)
        trunc = z3.If(y >= 0, z3.And(tr <= y, y < tr + 1),
                      z3.And(tr - 1 < y, y <= tr))
        at = z3.If(t >= 0, t, -t)
        away = z3.If(y >= 0, t + 1, t - 1)
        return z3.And(trunc,
                      z3.If(y == tr, m == t,
                            z3.If(z3.Or(at % 10 == 0, at % 10 == 5), m == away,
                                  m == t)))
    raise ValueError("Invalid rounding mode: %r" % (mode,))


def div_round_spec(mode, m, x, y):
    """integers, y > 0: m is x / y rounded under `mode`; d = x - m*y"""
    d = x - m * y
    R = ROUNDING
    if mode == R.ROUND_FLOOR:
        return z3.And(0 <= d, d < y)
    if mode == R.ROUND_CEILING:
        return z3.And(-y < d, d <= 0)
    if mode == R.ROUND_DOWN:
        return z3.If(x >= 0, z3.And(0 <= d, d < y), z3.And(-y < d, d <= 0))
    if mode == R.ROUND_UP:
        return z3.If(x >= 0, z3.And(-y < d, d <= 0), z3.And(0 <= d, d < y))
    if mode == R.ROUND_HALF_UP:
        return z3.And(-y <= 2 * d, 2 * d <= y,
                      z3.Implies(2 * d == y, x < 0), z3.Implies(2 * d == -y, x > 0))
    if mode == R.ROUND_HALF_DOWN:
        return z3.And(-y <= 2 * d, 2 * d <= y,
                      z3.Implies(2 * d == y, x > 0), z3.Implies(2 * d == -y, x < 0))
    if mode == R.ROUND_HALF_EVEN:
        return z3.And(-y <= 2 * d, 2 * d <= y,
                      z3.Implies(z3.Or(2 * d == y, 2 * d == -y), m % 2 == 0))
    if mode == R.ROUND_05UP:
        # t = trunc(x / y) is m or m -+ 1; state it through d
        exact = d == 0
        # candidates for t: m (not moved) or m - sign (moved away from zero)
        t_same = z3.If(x >= 0, z3.And(0 <= d, d < y), z3.And(-y < d, d <= 0))
        t_moved = z3.If(x >= 0, z3.And(-y < d, d < 0), z3.And(0 < d, d < y))
        am = z3.If(m >= 0, m, -m)
        tm = z3.If(x >= 0, m - 1, m + 1)          # t when moved
        atm = z3.If(tm >= 0, tm, -tm)
        return z3.Or(exact,
                     z3.And(t_same, d != 0, am % 10 != 0, am % 10 != 5),
                     z3.And(t_moved, z3.Or(atm % 10 == 0, atm % 10 == 5)))
    raise ValueError("Invalid rounding mode: %r" % (mode,))


# -------------------------------------------------------------------- SymInt
class SymInt:
    """Symbolic integer; registered as numbers.Integral, not an int subclass."""
    __slots__ = ('z',)

    def __init__(self, z):
        self.z = z

    @staticmethod
    def _l(x):
        if isinstance(x, SymInt):
            return x.z
        if isinstance(x, bool):
            return z3.IntVal(int(x))
        if isinstance(x, int):
            return z3.IntVal(x)
        return None

    @staticmethod
    def _mk(z):
        z = z3.simplify(z)
        if z3.is_int_value(z):
            return z.as_long()
        return SymInt(z)

    def _bin(self, o, f, swap=False):
        oz = SymInt._l(o)
        if oz is None:
            # mixed with rationals: go through the rational proxies
            lo = _lift(o)
            if lo is None:
                return NotImplemented
            me = SymDec(z3.ToReal(self.z))
            name = {'add': '__add__', 'sub': '__sub__', 'mul': '__mul__'}[f]
            rname = {'add': '__radd__', 'sub': '__rsub__', 'mul': '__rmul__'}[f]
            return getattr(me, rname if swap else name)(o)
        a, b = (oz, self.z) if swap else (self.z, oz)
        if f == 'add': return SymInt._mk(a + b)
        if f == 'sub': return SymInt._mk(a - b)
        if f == 'mul': return SymInt._mk(a * b)

    def __add__(self, o): return self._bin(o, 'add')
    def __radd__(self, o): return self._bin(o, 'add', True)
    def __sub__(self, o): return self._bin(o, 'sub')
    def __rsub__(self, o): return self._bin(o, 'sub', True)
    def __mul__(self, o): return self._bin(o, 'mul')
    def __rmul__(self, o): return self._bin(o, 'mul', True)
    def __neg__(self): return SymInt._mk(-self.z)
    def __pos__(self): return self
    def __abs__(self):
        if E.branch(self.z >= 0):
            return self
        return SymInt._mk(-self.z)

    def __truediv__(self, o):
        if isinstance(o, (SymInt, int)) and not isinstance(o, bool):
            # int / int is a float in Python: outside the exact fragment, the path is concretised
            oz = SymInt._l(o)
            if E.branch(oz == 0):
                raise ZeroDivisionError('division by zero (symbolic)')
            return E.concretise_float(z3.ToReal(self.z) / z3.ToReal(oz))
        return SymDec(z3.ToReal(self.z)).__truediv__(o)

    def __rtruediv__(self, o):
        if isinstance(o, int) and not isinstance(o, bool):
            if E.branch(self.z == 0):
                raise ZeroDivisionError('division by zero (symbolic)')
            return E.concretise_float(z3.RealVal(o) / z3.ToReal(self.z))
        return SymDec(z3.ToReal(self.z)).__rtruediv__(o)

    def _divmod(self, a, b):
        """definitional quotient / remainder (no div/mod terms), Python sign rule"""
        if E.branch(b == 0):
            raise ZeroDivisionError("integer division by zero (symbolic)")
        q = E.fresh('int', 'q')
        r = E.fresh('int', 'r')
        E._add(z3.And(a == q * b + r,
                      z3.If(b > 0, z3.And(0 <= r, r < b), z3.And(b < r, r <= 0))))
        return SymInt._mk(q), SymInt._mk(r)

    def __divmod__(self, o):
        oz = SymInt._l(o)
        if oz is None:
            return NotImplemented
        return self._divmod(self.z, oz)

    def __rdivmod__(self, o):
        oz = SymInt._l(o)
        if oz is None:
            return NotImplemented
        return self._divmod(oz, self.z)

    def __floordiv__(self, o):
        r = self.__divmod__(o)
        return r if r is NotImplemented else r[0]

    def __rfloordiv__(self, o):
        r = self.__rdivmod__(o)
        return r if r is NotImplemented else r[0]

    def __mod__(self, o):
        if isinstance(o, int) and not isinstance(o, bool) and o > 0:
            return SymInt._mk(self.z % o)        # literal modulus: z3 mod
        r = self.__divmod__(o)
        return r if r is NotImplemented else r[1]

    def __rmod__(self, o):
        r = self.__rdivmod__(o)
        return r if r is NotImplemented else r[1]

    def __pow__(self, n):
        if isinstance(n, SymInt):
            n = E.concretise(n)
        if not isinstance(n, int):
            return NotImplemented
        if n < 0:
            return SymDec(z3.ToReal(self.z)) ** n
        z = z3.IntVal(1)
        for _ in range(n):
            z = z * self.z
        return SymInt._mk(z)

    def __rpow__(self, base):
        n = E.concretise(self)
        return base ** n

    def _cmp(self, o, op):
        oz = SymInt._l(o)
        a = self.z
        if oz is None:
            lo = _lift(o)
            if lo is None:
                return NotImplemented
            a, oz = z3.ToReal(a), lo[0]
        if op == 'eq': return _sb(a == oz)
        if op == 'ne': return _sb(a != oz)
        if op == 'lt': return _sb(a < oz)
        if op == 'le': return _sb(a <= oz)
        if op == 'gt': return _sb(a > oz)
        if op == 'ge': return _sb(a >= oz)

    def __eq__(self, o): return self._cmp(o, 'eq')
    def __ne__(self, o): return self._cmp(o, 'ne')
    def __lt__(self, o): return self._cmp(o, 'lt')
    def __le__(self, o): return self._cmp(o, 'le')
    def __gt__(self, o): return self._cmp(o, 'gt')
    def __ge__(self, o): return self._cmp(o, 'ge')

    def __bool__(self):
        return E.branch(self.z != 0)

    def __hash__(self):
        E.hash_log.append(self.z)
        if not E.hash_recording:
            E.loose_hash(self.z)
        return 0

    def __index__(self):
        return E.concretise(self)

    __int__ = __index__

    def __float__(self):
        raise ConcretisationLeak("float(SymInt)")

    @property
    def numerator(self): return self

    @property
    def denominator(self): return 1

    @property
    def real(self): return self

    @property
    def imag(self): return 0

    def __repr__(self):
        return "SymInt(%s)" % (z3.simplify(self.z),)

    def __str__(self):
        return E.marker_for(self)

    def __format__(self, spec):
        if spec:
            return format(E.concretise(self), spec)
        return E.marker_for(self)


numbers.Integral.register(SymInt)


class SymDate:
    """Symbolic calendar date (duck-typed: year / month / day, == against datetime.date)."""
    __slots__ = ('year', 'month', 'day')

    def __init__(self, y, m, d):
        self.year, self.month, self.day = SymInt(y), SymInt(m), SymInt(d)

    def __eq__(self, other):
        import datetime
        if isinstance(other, SymDate):
            return _sb(z3.And(self.year.z == other.year.z, self.month.z == other.month.z,
                              self.day.z == other.day.z))
        if isinstance(other, datetime.date):
            return _sb(z3.And(self.year.z == other.year, self.month.z == other.month,
                              self.day.z == other.day))
        return False

    def __ne__(self, other):
        r = self.__eq__(other)
        return (not r) if isinstance(r, bool) else _sb(z3.Not(r.z))

    def __hash__(self):
        return 0

    def __repr__(self):
        return 'SymDate(%s, %s, %s)' % (self.year, self.month, self.day)

    def _concrete(self):
        """Calendar arithmetic beyond year / month / day (ISO week date, weekday, ordinal, text): pin the date to one
        value of the current path (DART-style; days around New Year first, where the calendars disagree) and answer from
        the real datetime.date.  Obligations on this path then speak about that date only (noted)."""
        import datetime
        y, m, d = self.year.z, self.month.z, self.day.z
        for cons in ([m == 12, d >= 29], [m == 1, d <= 3], []):
            r, mod = E._query(cons, min(E.feas_ms, 1500))
            if r == 'sat':
                vals = [mod.eval(v, model_completion=True).as_long() for v in (y, m, d)]
                try:
                    real = datetime.date(*vals)
                except ValueError:
                    continue
                E._add(z3.And(y == vals[0], m == vals[1], d == vals[2]))
                E.model = None
                E.notes.append('date-concretised')
                return real
        raise ConcretisationLeak('SymDate: no concrete date on this path')

    def isocalendar(self): return self._concrete().isocalendar()
    def weekday(self): return self._concrete().weekday()
    def isoweekday(self): return self._concrete().isoweekday()
    def toordinal(self): return self._concrete().toordinal()
    def timetuple(self): return self._concrete().timetuple()
    def isoformat(self): return self._concrete().isoformat()
    def strftime(self, fmt): return self._concrete().strftime(fmt)


class SymLog10:
    """Result of math.log10(symbolic positive rational): only floor() is defined."""
    def __init__(self, z):
        self.z = z

    def __floor__(self):
        # true magnitude k, or k+1 when the float log may round up to the next
        # integer (value within a relative 2^-44 band below 10^(k+1); generous
        # over-approximation of float(x) and log10 rounding, both outcomes explored)
        k = E.concretise(E.magnitude(self.z))
        nxt = Fraction(10) ** (k + 1)
        band = self.z >= q_val(nxt * (1 - Fraction(1, 2 ** 44)))
        if E.branch(band):
            if E.branch(E.fresh_bool('log10_rounds_up')):
                E.hint(self.z >= q_val(nxt * (1 - Fraction(1, 2 ** 54))))
                return k + 1
        return k


def _symlog_trunc(self):
    # int(log10(x)): truncation towards zero
    k = self.__floor__()
    if k >= 0:
        return k
    if E.branch(self.z == q_val(Fraction(10) ** k)):
        return k
    return k + 1


SymLog10.__int__ = _symlog_trunc
SymLog10.__trunc__ = _symlog_trunc


def _symlog_ceil(self):
    k = self.__floor__()
    if E.branch(self.z == q_val(Fraction(10) ** k)):
        return k
    return k + 1


SymLog10.__ceil__ = _symlog_ceil


# ----------------------------------------------------------------- patching
_ARITH = ['__add__', '__radd__', '__sub__', '__rsub__', '__mul__', '__rmul__',
          '__truediv__', '__rtruediv__', '__pow__', '__rpow__',
          '__eq__', '__lt__', '__le__', '__gt__', '__ge__',
          '__floordiv__', '__rfloordiv__', '__mod__', '__rmod__',
          '__divmod__', '__rdivmod__']

_installed = False


def _defer(orig):
    def wrapper(self, other, *rest):
        if isinstance(other, (SymRat, SymInt)) and not isinstance(self, (SymRat, SymInt)):
            return NotImplemented
        return orig(self, other, *rest)
    wrapper.__name__ = getattr(orig, '__name__', 'wrapped')
    wrapper.__wrapped__ = orig
    return wrapper


def install(engine):
    """Bind proxies to `engine`; patch the dependency once per process."""
    global E, _installed
    E = engine
    if _installed:
        return
    _installed = True
    for cls in (Decimal, Fraction):
        for name in _ARITH:
            orig = cls.__dict__.get(name)
            if orig is None:
                continue
            setattr(cls, name, _defer(orig))
    # Decimal.__ne__ / Fraction.__ne__ are inherited from object (-> not __eq__)

    # while a hash is being recorded (Engine.hash_of) concrete rationals are recorded like symbolic
    # ones, so that a term holding 1000000 and a term holding y (== 1000000 on this path) compare
    for cls in (Decimal, Fraction):
        orig_hash = cls.__dict__['__hash__']

        def rec_hash(self, _orig=orig_hash):
            if E is not None and E.hash_recording and not isinstance(self, (SymRat,)):
                E.hash_log.append(q_val(Fraction(self.numerator, self.denominator)))
                return 0
            return _orig(self)
        cls.__hash__ = rec_hash


    orig_dec_new = Decimal.__new__

    def dec_new(cls, value=None, precision=None):
        if isinstance(value, str) and E is not None and E.is_marker(value):
            value = E.marker_value(value)
            if isinstance(value, SymFrac):
                # the text form of a fraction is 'n/d', which is no decimal literal
                raise ValueError("Can't convert marker of a fraction to Decimal.")
        if isinstance(value, SymStrBase):
            return value._parse_decimal(cls, precision)
        if not isinstance(value, (SymRat, SymInt)):
            if isinstance(precision, SymInt):
                precision = E.concretise(precision)
            return orig_dec_new(cls, value, precision)
        z = value.z if isinstance(value, SymRat) else z3.ToReal(value.z)
        if precision is None:
            if isinstance(value, SymInt) or value.flav == 'dec':
                return SymDec(z)
            # exact conversion of a fraction: representable or ValueError
            E.stub('Decimal(fraction)')
            if E.branch(E.fresh_bool('decimal_repr')):
                return SymDec(z)
            # not representable: in particular not a decimal with up to 30 fractional digits
            E._add(z3.Not(z3.IsInt(z * (10 ** 30))))
            E.hint(z3.And(z3.IsInt(z * (3 * 10 ** 4)), z3.Not(z3.IsInt(z * (10 ** 4)))))     # e.g. thirds: surely not decimal
            raise ValueError("Can't convert symbolic fraction exactly to Decimal.")
        if isinstance(precision, SymInt):
            precision = E.concretise(precision)
        if not isinstance(precision, int):
            raise TypeError("Precision must be of type 'numbers.Integral'.")
        if precision < 0:
            raise ValueError("Precision must be >= 0.")
        return _round_to_prec(z, precision, None)

    Decimal.__new__ = staticmethod(dec_new)

    orig_frac_new = Fraction.__new__

    def frac_new(cls, numerator=0, denominator=None, **kw):
        if isinstance(numerator, str) and E is not None and E.is_marker(numerator):
            numerator = E.marker_value(numerator)
        if isinstance(numerator, SymStrBase) and denominator is None:
            return numerator._parse_fraction(cls)
        if isinstance(numerator, (SymRat, SymInt)) or \
                isinstance(denominator, (SymRat, SymInt)):
            nz = _lift(numerator)[0]
            if denominator is None:
                return SymFrac(nz)
            dz = _lift(denominator)[0]
            if E.branch(dz == 0):
                raise ZeroDivisionError('Fraction(%s, 0)' % numerator)
            return SymFrac(nz / dz)
        if denominator is None:
            return orig_frac_new(cls, numerator)
        return orig_frac_new(cls, numerator, denominator)

    Fraction.__new__ = staticmethod(frac_new)

    # the pure-Python decimalfp searches the precision of a quotient by trial
    # (10 ms per division, seconds for non-terminating ones); same result, computed
    # from the prime factors of the reduced denominator
    max_prec = _pydec.MAX_DEC_PRECISION

    def fast_approx(num, den, min_prec=0):
        if num == 0:
            return 0, min_prec, 0
        fr = Fraction(num, den)
        d = fr.denominator
        n2 = n5 = 0
        while d % 2 == 0:
            d //= 2
            n2 += 1
        while d % 5 == 0:
            d //= 5
            n5 += 1
        p = max(n2, n5)
        if d != 1 or p > max_prec:
            return 0, max_prec, 1           # callers only test the remainder
        return fr.numerator * 10 ** p // fr.denominator, p, 0

    def fast_div(num, den, min_prec):
        v, p, r = fast_approx(num, den, min_prec)
        if r:
            return Fraction(num, den)
        dec = object.__new__(Decimal)
        dec._value = v
        dec._precision = p
        return dec

    _pydec._approx_rational = fast_approx
    _pydec._div = fast_div

    orig_log10 = math.log10

    def log10(x):
        if isinstance(x, (SymRat, SymInt)):
            z = _lift(x)[0]
            if E.branch(z <= 0):
                raise ValueError("math domain error")
            E.stub('math.log10')
            return SymLog10(z)
        return orig_log10(x)

    math.log10 = log10


class SymStrBase(str):
    """Base class of symbolic strings (defined in symx.symstr)."""
    __slots__ = ()
