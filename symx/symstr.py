"""Symbolic strings: a bounded vector of symbolic code points over a small alphabet (DESIGN 3.4).

Operations split lazily on exactly the predicates they need (is-whitespace, equals-blank, equals a
literal character); the length is concrete per path.  Decimal(str) / Fraction(str) on a symbolic token
concretise its characters by class and hand the concrete token to the real parsers.
"""
from __future__ import annotations

import z3

from . import proxies as P
from .core import HarnessError

WS = (32, 9)


def _c(x):
    return x if z3.is_expr(x) else z3.IntVal(int(x))


class SymStr(P.SymStrBase):
    __slots__ = ('chars', 'alphabet')

    def __new__(cls, chars, alphabet):
        self = str.__new__(cls, '�' * len(chars))
        self.chars = [z3.simplify(_c(c)) for c in chars]
        self.alphabet = alphabet
        return self

    # ---- helpers
    def _E(self):
        return P.E

    def _sub(self, chars):
        return SymStr(chars, self.alphabet)

    def _is_ws(self, i):
        c = self.chars[i]
        return z3.Or(*[c == w for w in WS])

    def concrete(self):
        """concretise every character (splits per feasible value) -> Python str"""
        E = self._E()
        out = []
        for c in self.chars:
            if z3.is_int_value(c):
                out.append(chr(c.as_long()))
            else:
                out.append(chr(E.concretise(P.SymInt(c))))
        return ''.join(out)

    def concrete_by_class(self, generic):
        """concretise characters, except that members of `generic` (a set of code points that the caller
        treats alike) are replaced by one representative while staying symbolic in the path condition"""
        E = self._E()
        out = []
        rep = chr(sorted(generic)[0])
        for c in self.chars:
            if z3.is_int_value(c):
                out.append(chr(c.as_long()))
                continue
            if generic and E.branch(z3.Or(*[c == g for g in sorted(generic)])):
                out.append(rep)
            else:
                out.append(chr(E.concretise(P.SymInt(c))))
        return ''.join(out)

    # ---- str API used by the library
    def __len__(self):
        return len(self.chars)

    def lstrip(self, chars=None):
        if chars is not None:
            raise HarnessError('SymStr.lstrip(chars)')
        E = self._E()
        i = 0
        while i < len(self.chars) and E.branch(self._is_ws(i)):
            i += 1
        return self._sub(self.chars[i:])

    def rstrip(self, chars=None):
        if chars is not None:
            raise HarnessError('SymStr.rstrip(chars)')
        E = self._E()
        j = len(self.chars)
        while j > 0 and E.branch(self._is_ws(j - 1)):
            j -= 1
        return self._sub(self.chars[:j])

    def strip(self, chars=None):
        return self.lstrip(chars).rstrip(chars)

    def split(self, sep=None, maxsplit=-1):
        E = self._E()
        if sep != ' ':
            raise HarnessError('SymStr.split(%r)' % (sep,))
        parts = []
        cur = []
        n = 0
        for i, c in enumerate(self.chars):
            if (maxsplit < 0 or n < maxsplit) and E.branch(c == 32):
                parts.append(self._sub(cur))
                cur = []
                n += 1
            else:
                cur.append(c)
        parts.append(self._sub(cur))
        return parts

    def __eq__(self, other):
        if isinstance(other, SymStr):
            if len(other) != len(self):
                return False
            return P._sb(z3.And(True, *[a == b for a, b in zip(self.chars, other.chars)]))
        if isinstance(other, str):
            if len(other) != len(self.chars):
                return False
            return P._sb(z3.And(True, *[a == ord(b) for a, b in zip(self.chars, other)]))
        return NotImplemented

    def __ne__(self, other):
        r = self.__eq__(other)
        if r is NotImplemented:
            return r
        return (not r) if isinstance(r, bool) else P._sb(z3.Not(r.z))

    def __hash__(self):
        return 0

    def __getitem__(self, idx):
        if isinstance(idx, slice):
            return self._sub(self.chars[idx])
        return self._sub([self.chars[idx]])

    def __iter__(self):
        for c in self.chars:
            yield self._sub([c])

    def __bool__(self):
        return len(self.chars) > 0

    def __contains__(self, item):
        raise HarnessError('SymStr.__contains__')

    def __add__(self, other):
        if isinstance(other, SymStr):
            return self._sub(self.chars + other.chars)
        if isinstance(other, str):
            return self._sub(self.chars + [ord(ch) for ch in other])
        return NotImplemented

    def __radd__(self, other):
        if isinstance(other, str):
            return self._sub([ord(ch) for ch in other] + self.chars)
        return NotImplemented

    # rendering (error messages only): a placeholder per symbolic position
    def _render(self):
        return ''.join(chr(c.as_long()) if z3.is_int_value(c) else '�' for c in self.chars)

    def __str__(self):
        return self._render()

    def __repr__(self):
        return 'SymStr(%r)' % self._render()

    def __format__(self, spec):
        return format(self._render(), spec)

    def encode(self, *a, **k):
        raise HarnessError('SymStr.encode')

    # ---- literal parsing: concretise by class, then the real parsers decide
    GENERIC = None     # set per alphabet: code points no literal grammar can contain

    def _literal_token(self):
        generic = {c for c in self.alphabet if chr(c) not in '0123456789+-./_eE \t'}
        return self.concrete_by_class(generic)

    def _parse_decimal(self, cls, precision):
        from decimalfp import Decimal
        tok = self._literal_token()
        return Decimal(tok, precision)

    def _parse_fraction(self, cls):
        from fractions import Fraction
        tok = self._literal_token()
        return Fraction(tok)
