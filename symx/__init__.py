"""symx -- symbolic execution of the real `quantity` code with z3-backed proxy numbers.

See /verif/DESIGN.md sections 2-4.  Modules:

  core      symbolic engine (path condition, fork-based path splitting, obligations)
  proxies   SymBool / SymInt / SymDec / SymFrac and the dependency stubs
  concrete  the concrete twin of the engine (no z3): witness validation and replay
  runner    job pool, witness validation, replay, known findings, evidence
"""
